package main

import (
	"fmt"
	"os"
	"runtime"
	"runtime/debug"
	"strconv"
	"strings"

	"verifmc/checks"
	"verifmc/fw"
)

func main() {
	os.Setenv("TZ", "UTC")
	if len(os.Args) < 2 {
		fmt.Println("usage: check run <id> <tier> | replay <file> | list")
		os.Exit(2)
	}
	switch os.Args[1] {
	case "list":
		for _, id := range fw.IDs() {
			fmt.Println(id)
		}
	case "run":
		os.Exit(fw.RunMain(os.Args[2], os.Args[3]))
	case "racepass":
		n, _ := strconv.Atoi(os.Args[2])
		os.Exit(checks.RaceMain(n))
	case "replay":
		os.Exit(fw.ReplayMain(os.Args[2]))
	case "worker":
		runtime.GOMAXPROCS(2)
		debug.SetGCPercent(600)
		// worker <id> <tier> <shard> <n> <startSpace> <startIndex> [only] [careful] [verbose] [skip=a#1,b#2]
		sh, _ := strconv.Atoi(os.Args[4])
		n, _ := strconv.Atoi(os.Args[5])
		idx, _ := strconv.ParseInt(os.Args[7], 10, 64)
		only, careful, verbose := false, false, false
		skip := map[string]bool{}
		window := int64(0)
		for _, a := range os.Args[8:] {
			switch {
			case a == "only":
				only = true
			case a == "careful":
				careful = true
			case a == "verbose":
				verbose = true
			case strings.HasPrefix(a, "window="):
				window, _ = strconv.ParseInt(a[7:], 10, 64)
			case strings.HasPrefix(a, "skip="):
				for _, s := range strings.Split(a[5:], ",") {
					skip[s] = true
				}
			}
		}
		os.Exit(fw.WorkerMain(os.Args[2], os.Args[3], sh, n, os.Args[6], idx, only, careful, verbose, skip, window))
	default:
		fmt.Println("unknown command")
		os.Exit(2)
	}
}
