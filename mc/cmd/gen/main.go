// gen prepares the build overlay used by the checks. Nothing in the
// repository is edited: all generated files live under <out>/ and are mapped
// into the repository's directory tree with `go build -overlay`.
//
//	gen <repo> <out> [instrument]
//
// Always generated:
//   - one file zz_verif_globals.go per repository package exporting the
//     addresses of ALL its package-level variables (found with go/parser at
//     check time, so a variable added by a later change is watched too);
//   - the virtual package <module>/verifsched (yield hook).
//
// With "instrument": copies of the evaluator / tokenizer / parser sources
// with a verifsched.Yield("<file>:<line>") call inserted at every function
// entry and loop-body head, regenerated from the working tree on every run.
package main

import (
	"bytes"
	"encoding/json"
	"fmt"
	"go/ast"
	"go/format"
	"go/parser"
	"go/token"
	"os"
	"path/filepath"
	"sort"
	"strconv"
	"strings"
)

const module = "github.com/pip-services3-gox/pip-services3-expressions-gox"

// files whose functions get yield points (relative to the repository root)
var instrumentFiles = []string{
	"calculator/ExpressionCalculator.go",
	"calculator/CalculationStack.go",
	"calculator/functions/DelegatedFunction.go",
	"calculator/parsers/ExpressionParser.go",
	"mustache/MustacheTemplate.go",
	"mustache/parsers/MustacheParser.go",
	"mustache/tokenizers/MustacheTokenizer.go",
	"tokenizers/AbstractTokenizer.go",
	"tokenizers/generic/SymbolNode.go",
	"tokenizers/generic/SymbolRootNode.go",
}

// Loop heads get a yield point too, except `range` loops over a function parameter
// of map type: Go's map iteration order would make the number of yield points differ
// between two runs of the same schedule (MustacheTemplate.GetVariable ranges over the
// variable map and breaks at the first match).
func mapParams(fd *ast.FuncDecl) map[string]bool {
	out := map[string]bool{}
	if fd.Type.Params == nil {
		return out
	}
	for _, f := range fd.Type.Params.List {
		t := f.Type
		if st, ok := t.(*ast.StarExpr); ok {
			t = st.X
		}
		if _, ok := t.(*ast.MapType); ok {
			for _, n := range f.Names {
				out[n.Name] = true
			}
		}
	}
	return out
}

func rangesOverMapParam(s *ast.RangeStmt, mp map[string]bool) bool {
	x := s.X
	if st, ok := x.(*ast.StarExpr); ok {
		x = st.X
	}
	if p, ok := x.(*ast.ParenExpr); ok {
		x = p.X
		if st, ok := x.(*ast.StarExpr); ok {
			x = st.X
		}
	}
	id, ok := x.(*ast.Ident)
	return ok && mp[id.Name]
}

// collectLiterals counts the basic literals of a file (import paths and struct tags excluded).
func collectLiterals(af *ast.File, lits map[string]int) {
	skip := map[*ast.BasicLit]bool{}
	for _, im := range af.Imports {
		skip[im.Path] = true
	}
	ast.Inspect(af, func(n ast.Node) bool {
		if f, ok := n.(*ast.Field); ok && f.Tag != nil {
			skip[f.Tag] = true
		}
		bl, ok := n.(*ast.BasicLit)
		if !ok || skip[bl] {
			return true
		}
		switch bl.Kind {
		case token.STRING:
			if v, err := strconv.Unquote(bl.Value); err == nil && v != "" && len(v) <= 80 {
				lits["s:"+v]++
			}
		case token.CHAR:
			if v, _, _, err := strconv.UnquoteChar(strings.Trim(bl.Value, "'"), '\''); err == nil {
				lits["r:"+strconv.Itoa(int(v))]++
			}
		case token.INT:
			if v, err := strconv.ParseInt(bl.Value, 0, 64); err == nil {
				lits["i:"+strconv.FormatInt(v, 10)]++
			}
		}
		return true
	})
}

func main() {
	if len(os.Args) < 3 {
		fmt.Fprintln(os.Stderr, "usage: gen <repo> <out> [instrument]")
		os.Exit(2)
	}
	repo, out := os.Args[1], os.Args[2]
	instrument := len(os.Args) > 3 && os.Args[3] == "instrument"
	os.RemoveAll(out)
	os.MkdirAll(out, 0o755)
	overlay := map[string]string{}

	// ---- package-level variable exporters
	pkgs := map[string][]string{} // dir -> file list
	filepath.Walk(repo, func(p string, info os.FileInfo, err error) error {
		if err != nil {
			return nil
		}
		rel, _ := filepath.Rel(repo, p)
		if info.IsDir() {
			if strings.HasPrefix(info.Name(), ".") && p != repo || rel == "test" || rel == "verifsched" || info.Name() == "node_modules" || info.Name() == "vendor" {
				return filepath.SkipDir
			}
			return nil
		}
		if strings.HasSuffix(p, ".go") && !strings.HasSuffix(p, "_test.go") && !strings.HasPrefix(info.Name(), "zz_verif_") {
			pkgs[filepath.Dir(p)] = append(pkgs[filepath.Dir(p)], p)
		}
		return nil
	})
	lits := map[string]int{} // "s:<text>" / "r:<code>" / "i:<value>" -> number of occurrences in the non-test sources
	dirs := []string{}
	for d := range pkgs {
		dirs = append(dirs, d)
	}
	sort.Strings(dirs)
	manifest := []string{}
	for _, d := range dirs {
		fset := token.NewFileSet()
		pkgName := ""
		vars := []string{}
		for _, f := range pkgs[d] {
			af, err := parser.ParseFile(fset, f, nil, 0)
			if err != nil {
				fmt.Fprintln(os.Stderr, "gen: cannot parse", f, err)
				os.Exit(1)
			}
			if af.Name.Name == "main" {
				pkgName = ""
				break
			}
			pkgName = af.Name.Name
			collectLiterals(af, lits)
			for _, decl := range af.Decls {
				gd, ok := decl.(*ast.GenDecl)
				if !ok || gd.Tok != token.VAR {
					continue
				}
				for _, spec := range gd.Specs {
					for _, n := range spec.(*ast.ValueSpec).Names {
						if n.Name != "_" {
							vars = append(vars, n.Name)
						}
					}
				}
			}
		}
		if pkgName == "" {
			continue
		}
		sort.Strings(vars)
		var b bytes.Buffer
		fmt.Fprintf(&b, "// Code generated by /verif/mc/cmd/gen at check time (build overlay only). DO NOT EDIT.\n\npackage %s\n\n", pkgName)
		fmt.Fprintf(&b, "// VerifGlobals returns the addresses of all package-level variables of this package.\nfunc VerifGlobals() map[string]interface{} {\n\treturn map[string]interface{}{\n")
		for _, v := range vars {
			fmt.Fprintf(&b, "\t\t%q: &%s,\n", v, v)
		}
		fmt.Fprintf(&b, "\t}\n}\n")
		rel, _ := filepath.Rel(repo, d)
		dst := filepath.Join(out, rel, "zz_verif_globals.go")
		os.MkdirAll(filepath.Dir(dst), 0o755)
		os.WriteFile(dst, b.Bytes(), 0o644)
		overlay[filepath.Join(d, "zz_verif_globals.go")] = dst
		manifest = append(manifest, fmt.Sprintf("%s: %d package-level variables %v", rel, len(vars), vars))
	}

	// ---- virtual scheduler-hook package
	{
		src := `// Code generated by /verif/mc/cmd/gen (build overlay only). DO NOT EDIT.

// Package verifsched is the yield hook the instrumented sources call.
package verifsched

// Hook is installed by the exploring harness; nil means "run freely".
var Hook func(site string)

// Yield marks a scheduling point.
func Yield(site string) {
	if h := Hook; h != nil {
		h(site)
	}
}
`
		dst := filepath.Join(out, "verifsched", "sched.go")
		os.MkdirAll(filepath.Dir(dst), 0o755)
		os.WriteFile(dst, []byte(src), 0o644)
		overlay[filepath.Join(repo, "verifsched", "sched.go")] = dst
	}

	// ---- literals of the working tree that the pinned tree does not have (baseline_literals.json):
	// the checks add them to their alphabets, value pools and size lists
	{
		if dump := os.Getenv("VERIF_DUMP_LITERALS"); dump != "" {
			b, _ := json.MarshalIndent(lits, "", " ")
			os.WriteFile(dump, b, 0o644)
		}
		base := map[string]int{}
		if b, err := os.ReadFile(filepath.Join(os.Getenv("VERIF_DIR"), "baseline_literals.json")); err == nil {
			json.Unmarshal(b, &base)
		}
		var ns, nr, ni []string
		keys := []string{}
		for k := range lits {
			keys = append(keys, k)
		}
		sort.Strings(keys)
		for _, k := range keys {
			if len(base) == 0 || lits[k] <= base[k] {
				continue
			}
			switch k[0] {
			case 's':
				ns = append(ns, strconv.Quote(k[2:]))
			case 'r':
				nr = append(nr, k[2:])
			case 'i':
				ni = append(ni, k[2:])
			}
		}
		src := "// Code generated by /verif/mc/cmd/gen (build overlay only). DO NOT EDIT.\n\npackage verifsched\n\n" +
			"// String, character and integer literals that occur (more often) in the non-test sources of the\n// working tree than in the pinned tree.\n" +
			"var NewStrings = []string{" + strings.Join(ns, ", ") + "}\n" +
			"var NewRunes = []rune{" + strings.Join(nr, ", ") + "}\n" +
			"var NewInts = []int64{" + strings.Join(ni, ", ") + "}\n"
		dst := filepath.Join(out, "verifsched", "literals.go")
		os.WriteFile(dst, []byte(src), 0o644)
		overlay[filepath.Join(repo, "verifsched", "literals.go")] = dst
		manifest = append(manifest, fmt.Sprintf("literals new against the pinned tree: %d strings %v, %d characters %v, %d integers %v", len(ns), ns, len(nr), nr, len(ni), ni))
	}

	// ---- instrumented copies
	sites := 0
	if instrument {
		for _, rel := range instrumentFiles {
			srcPath := filepath.Join(repo, rel)
			if _, err := os.Stat(srcPath); err != nil {
				continue // file removed/renamed by a change: simply not instrumented
			}
			fset := token.NewFileSet()
			af, err := parser.ParseFile(fset, srcPath, nil, parser.ParseComments)
			if err != nil {
				fmt.Fprintln(os.Stderr, "gen: cannot parse", srcPath, err)
				os.Exit(1)
			}
			n := 0
			yield := func(pos token.Pos, what string) ast.Stmt {
				n++
				site := fmt.Sprintf("%s:%d:%s", rel, fset.Position(pos).Line, what)
				return &ast.ExprStmt{X: &ast.CallExpr{
					Fun:  &ast.SelectorExpr{X: ast.NewIdent("verifsched"), Sel: ast.NewIdent("Yield")},
					Args: []ast.Expr{&ast.BasicLit{Kind: token.STRING, Value: strconv.Quote(site)}},
				}}
			}
			for _, decl := range af.Decls {
				fd, ok := decl.(*ast.FuncDecl)
				if !ok || fd.Body == nil {
					continue
				}
				name := fd.Name.Name
				mp := mapParams(fd)
				ast.Inspect(fd.Body, func(nd ast.Node) bool {
					switch s := nd.(type) {
					case *ast.ForStmt:
						s.Body.List = append([]ast.Stmt{yield(s.Pos(), name+":loop")}, s.Body.List...)
					case *ast.RangeStmt:
						if rangesOverMapParam(s, mp) {
							return true
						}
						s.Body.List = append([]ast.Stmt{yield(s.Pos(), name+":loop")}, s.Body.List...)
					}
					return true
				})
				fd.Body.List = append([]ast.Stmt{yield(fd.Pos(), name)}, fd.Body.List...)
			}
			if n == 0 {
				continue
			}
			// add the import
			imp := &ast.GenDecl{Tok: token.IMPORT, Specs: []ast.Spec{&ast.ImportSpec{Path: &ast.BasicLit{Kind: token.STRING, Value: strconv.Quote(module + "/verifsched")}}}}
			af.Decls = append([]ast.Decl{imp}, af.Decls...)
			var b bytes.Buffer
			b.WriteString("// Code generated by /verif/mc/cmd/gen from " + rel + " (yield points inserted; build overlay only). DO NOT EDIT.\n")
			if err := format.Node(&b, fset, af); err != nil {
				fmt.Fprintln(os.Stderr, "gen: cannot print", srcPath, err)
				os.Exit(1)
			}
			dst := filepath.Join(out, rel)
			os.MkdirAll(filepath.Dir(dst), 0o755)
			os.WriteFile(dst, b.Bytes(), 0o644)
			overlay[srcPath] = dst
			sites += n
			manifest = append(manifest, fmt.Sprintf("instrumented %s: %d yield sites", rel, n))
		}
	}
	ob, _ := json.MarshalIndent(map[string]interface{}{"Replace": overlay}, "", " ")
	os.WriteFile(filepath.Join(out, "overlay.json"), ob, 0o644)
	os.WriteFile(filepath.Join(out, "MANIFEST.txt"), []byte(strings.Join(manifest, "\n")+"\n"), 0o644)
	fmt.Printf("gen: %d packages, %d overlay files, %d yield sites\n", len(dirs), len(overlay), sites)
}
