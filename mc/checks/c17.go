package checks

import (
	"fmt"
	"strings"

	"verifmc/fw"

	rio "github.com/pip-services3-gox/pip-services3-expressions-gox/io"
	"github.com/pip-services3-gox/pip-services3-expressions-gox/tokenizers"
	"github.com/pip-services3-gox/pip-services3-expressions-gox/tokenizers/generic"
	"github.com/pip-services3-gox/pip-services3-expressions-gox/tokenizers/utilities"
)

// C17 — character-class maps answer with the latest covering registration.

type c17Ref struct{ name string }

var (
	c17A = &c17Ref{"A"}
	c17B = &c17Ref{"B"}
)

var c17Endpoints = []rune{0, 'a', 0xFF, 0x100, 0x101, 0x2000, 0xFFFE}

type c17Op struct {
	kind       int // 0 add, 1 default, 2 clear
	start, end rune
	ref        int // 0 A, 1 B, 2 nil
}

func (o c17Op) String() string {
	r := []string{"A", "B", "nil"}[o.ref]
	switch o.kind {
	case 0:
		return fmt.Sprintf("AddInterval(%#x,%#x,%s)", o.start, o.end, r)
	case 1:
		return fmt.Sprintf("AddDefaultInterval(%s)", r)
	}
	return "Clear()"
}

var c17Ops []c17Op
var c17Probes []rune

func init() {
	for ref := 0; ref < 3; ref++ {
		for i, s := range c17Endpoints {
			for _, e := range c17Endpoints[i:] {
				c17Ops = append(c17Ops, c17Op{0, s, e, ref})
			}
		}
	}
	for ref := 0; ref < 3; ref++ {
		c17Ops = append(c17Ops, c17Op{1, 0, 0, ref})
	}
	c17Ops = append(c17Ops, c17Op{kind: 2})
	// characters above U+FFFF can never be covered; in particular not through their low 16 bits
	c17Probes = append(c17Probes, 0x10000, 0x10061, 0x100FF, 0x10100, 0x12000, 0x1F600, 0x1FFFE, 0x2FFFE, 0x10FFFF)
	seen := map[rune]bool{}
	for _, e := range c17Endpoints {
		for _, d := range []rune{-1, 0, 1} {
			p := e + d
			if p >= 0 && p <= 0xFFFF && !seen[p] {
				seen[p] = true
				c17Probes = append(c17Probes, p)
			}
		}
	}
}

// c17OpsExt: c17Ops followed by registrations that are open to the end of the table (end U+FFFF, as the
// tokenizers' own default word range); histories over them are enumerated in a space of their own
var c17OpsExt []c17Op
var c17OpenFirst int

func init() {
	c17OpsExt = append(c17OpsExt, c17Ops...)
	c17OpenFirst = len(c17OpsExt)
	for ref := 0; ref < 3; ref++ {
		for _, s := range c17Endpoints {
			c17OpsExt = append(c17OpsExt, c17Op{0, s, 0xFFFF, ref})
		}
	}
}

var c17HighCache []int

// c17HighOps: the operations whose range reaches above U+00FF (they populate the interval list)
func c17HighOps() []int {
	if c17HighCache == nil {
		for i, o := range c17Ops {
			if o.kind == 0 && o.end >= 0x100 && o.start >= 0xFF {
				c17HighCache = append(c17HighCache, i)
			}
		}
	}
	return c17HighCache
}

func c17RefOf(i int) interface{} {
	switch i {
	case 0:
		return c17A
	case 1:
		return c17B
	}
	return nil
}

type c17Interval struct {
	s, e rune
	ref  int
}

// c17Model: list of registrations, newest last.
func c17ModelLookup(ivs []c17Interval, ch rune) int {
	for i := len(ivs) - 1; i >= 0; i-- {
		if ch >= ivs[i].s && ch <= ivs[i].e {
			return ivs[i].ref
		}
	}
	return 2
}

func c17ModelApply(ivs []c17Interval, o c17Op) []c17Interval {
	switch o.kind {
	case 0:
		return append(append([]c17Interval{}, ivs...), c17Interval{o.start, o.end, o.ref})
	case 1:
		return append(append([]c17Interval{}, ivs...), c17Interval{0, 0xFFFE, o.ref})
	}
	return nil
}

func c17Apply(m *utilities.CharReferenceMap, o c17Op) {
	switch o.kind {
	case 0:
		m.AddInterval(o.start, o.end, c17RefOf(o.ref))
	case 1:
		m.AddDefaultInterval(c17RefOf(o.ref))
	case 2:
		m.Clear()
	}
}

func c17Classify(v interface{}) string {
	switch x := v.(type) {
	case nil:
		return "nil"
	case *c17Ref:
		if x == nil {
			return "typed-nil"
		}
		return x.name
	default:
		return fmt.Sprintf("other(%T)", v)
	}
}

func c17HistStr(h []int) string {
	p := []string{}
	for _, i := range h {
		p = append(p, c17OpsExt[i].String())
	}
	return strings.Join(p, "; ")
}

// c17OpenHistory: two registrations, at least one of them open to the end of the table, in both orders
func c17OpenHistory(i int64) []int {
	no := int64(len(c17OpsExt) - c17OpenFirst)
	n := int64(len(c17Ops))
	if i < 2*n*no {
		a, b := int(i/2%n), c17OpenFirst+int(i/2/n)
		if i%2 == 0 {
			return []int{a, b}
		}
		return []int{b, a}
	}
	i -= 2 * n * no
	return []int{c17OpenFirst + int(i/no), c17OpenFirst + int(i%no)}
}

// c17CheckHistory replays h on a fresh map and compares every probe with the model.
// Returns the probe vector (state key).
func c17CheckHistory(c *fw.Ctx, h []int) string {
	m := utilities.NewCharReferenceMap()
	var ivs []c17Interval
	names := []string{"A", "B", "nil"}
	var key strings.Builder
	openEnded := false
	// the probes are looked up after EVERY operation on the same map (lookups between
	// registrations must not influence later answers); the vector after the last one is the state key
	for step := 0; step <= len(h); step++ {
		if step > 0 {
			c17Apply(m, c17OpsExt[h[step-1]])
			ivs = c17ModelApply(ivs, c17OpsExt[h[step-1]])
			if h[step-1] >= c17OpenFirst {
				openEnded = true
			}
		}
		key.Reset()
		for _, p := range c17Probes {
			if openEnded && p == 0xFFFF {
				continue // whether the table's last slot is U+FFFE or U+FFFF is not pinned
			}
			var got string
			if pv := fw.Try(func() { got = c17Classify(m.Lookup(p)) }); pv != nil {
				got = "panic"
			}
			want := names[c17ModelLookup(ivs, p)]
			if got != want {
				side := "below-0x100"
				if p >= 0x100 {
					side = "above-0xFF"
				}
				c.Violation("lookup-"+side, "after [%s] (all probes looked up after every operation): Lookup(%#x) = %s, the latest covering registration says %s", c17HistStr(h[:step]), p, got, want)
			}
			key.WriteString(got)
			key.WriteByte(',')
		}
		// and once more in descending order and in a far/near alternation: an answer must not
		// depend on which character was looked up just before
		for k := len(c17Probes) - 1; k >= -len(c17Probes); k-- {
			var p rune
			if k >= 0 {
				p = c17Probes[k]
			} else if j := -k - 1; j%2 == 0 {
				p = c17Probes[j/2]
			} else {
				p = c17Probes[len(c17Probes)-1-j/2]
			}
			if openEnded && p == 0xFFFF {
				continue
			}
			var got string
			if pv := fw.Try(func() { got = c17Classify(m.Lookup(p)) }); pv != nil {
				got = "panic"
			}
			if want := names[c17ModelLookup(ivs, p)]; got != want {
				c.Violation("lookup-depends-on-lookup-order", "after [%s]: Lookup(%#x) = %s when the probes are looked up in another order, the latest covering registration says %s", c17HistStr(h[:step]), p, got, want)
			}
		}
	}
	c.Eval(1)
	return key.String()
}

// ---- long live histories: m registrations of one filler range (m+3 next to 16, 32, 64, 128, 256 and the
// sizes next to integer constants that are new in the working tree), then every triple of high ranges;
// all probes are looked up after each of the last three registrations

func c17LongSizes() []int {
	out := []int{}
	seen := map[int]bool{}
	for _, t := range append([]int{16, 32, 64, 128, 256}, newSizes()...) {
		for _, m := range []int{t - 3, t - 2, t - 1} {
			if m >= 1 && !seen[m] {
				seen[m] = true
				out = append(out, m)
			}
		}
	}
	return out
}

func c17LongHistory(c *fw.Ctx, m int, triple []int) {
	mp := utilities.NewCharReferenceMap()
	filler := c17Op{kind: 0, start: 0x5000, end: 0x5001, ref: 1}
	ivs := []c17Interval{}
	for i := 0; i < m; i++ {
		c17Apply(mp, filler)
	}
	ivs = append(ivs, c17Interval{filler.start, filler.end, filler.ref})
	names := []string{"A", "B", "nil"}
	for step, oi := range triple {
		c17Apply(mp, c17Ops[oi])
		ivs = c17ModelApply(ivs, c17Ops[oi])
		for _, p := range append(append([]rune{}, c17Probes...), 0x5000, 0x5001, 0x5002) {
			var got string
			if pv := fw.Try(func() { got = c17Classify(mp.Lookup(p)) }); pv != nil {
				got = "panic"
			}
			if want := names[c17ModelLookup(ivs, p)]; got != want {
				c.Violation("lookup-after-many-registrations", "after %d registrations of [0x5000,0x5001]=B and then [%s]: Lookup(%#x) = %s, the latest covering registration says %s", m, c17HistStr(triple[:step+1]), p, got, want)
				return
			}
		}
	}
	c.Eval(1)
	c.Nontrivial()
	c.Count("states", 1)
	c.Count("transitions", int64(m+3))
}

// ---- very many Clear() calls on one map (a generation counter kept in a narrow integer wraps here)

var c17ClearCounts = []int{255, 256, 257, 65535, 65536, 65537}

func c17ManyClears(c *fw.Ctx, n int, oi int) {
	mp := utilities.NewCharReferenceMap()
	o := c17Ops[oi]
	c17Apply(mp, o)
	for i := 0; i < n; i++ {
		mp.Clear()
	}
	names := []string{"A", "B", "nil"}
	check := func(ivs []c17Interval, what string) bool {
		for _, p := range c17Probes {
			var got string
			if pv := fw.Try(func() { got = c17Classify(mp.Lookup(p)) }); pv != nil {
				got = "panic"
			}
			if want := names[c17ModelLookup(ivs, p)]; got != want {
				c.Violation("lookup-after-many-clears", "%s, then %d x Clear()%s: Lookup(%#x) = %s, expected %s", o, n, what, p, got, want)
				return false
			}
		}
		return true
	}
	if !check(nil, "") {
		return
	}
	// and the map still works afterwards
	o2 := c17Ops[(oi+5)%len(c17Ops)]
	if o2.kind == 2 {
		o2 = c17Ops[0]
	}
	c17Apply(mp, o2)
	check(c17ModelApply(nil, o2), ", then "+o2.String())
	c.Eval(1)
	c.Nontrivial()
}

// ---- adjacent ranges registered in every order: [a..b], [b+1..c], [c+1..d] with the same or different
// references, ascending, descending and middle-first; single neighbouring characters likewise

var c17AdjacentSets = [][][2]rune{
	{{0x100, 0x1ff}, {0x200, 0x2ff}, {0x300, 0x3ff}},
	{{0x100, 0x100}, {0x101, 0x101}, {0x102, 0x102}},
	{{0xfe, 0xff}, {0x100, 0x101}, {0x102, 0x2000}},
	{{0xff1a, 0xff1a}, {0xff1b, 0xff1b}, {0xff1c, 0xfffe}},
	{{0x41, 0x5a}, {0x5b, 0x60}, {0x61, 0x7a}},
}

func c17Adjacent(c *fw.Ctx, set int, perm int, refs int) {
	rs := c17AdjacentSets[set]
	order := permutations([]int{0, 1, 2})[perm]
	mp := utilities.NewCharReferenceMap()
	ivs := []c17Interval{}
	names := []string{"A", "B", "nil"}
	hist := []string{}
	for step, k := range order {
		ref := (refs >> (2 * k)) & 3 % 3 // 0 A, 1 B, 2 nil per range
		var pv interface{}
		pv = fw.Try(func() { mp.AddInterval(rs[k][0], rs[k][1], c17RefOf(ref)) })
		ivs = append(ivs, c17Interval{rs[k][0], rs[k][1], ref})
		hist = append(hist, fmt.Sprintf("AddInterval(%#x,%#x,%s)", rs[k][0], rs[k][1], names[ref]))
		if pv != nil {
			c.Violation("adjacent-ranges-panic", "[%s]: panic %s", strings.Join(hist, "; "), panicShort(pv))
			return
		}
		for _, r := range rs {
			for _, p := range []rune{r[0] - 1, r[0], r[0] + 1, r[1] - 1, r[1], r[1] + 1} {
				if p < 0 {
					continue
				}
				var got string
				if pv := fw.Try(func() { got = c17Classify(mp.Lookup(p)) }); pv != nil {
					got = "panic"
				}
				if want := names[c17ModelLookup(ivs, p)]; got != want {
					c.Violation("lookup-with-adjacent-ranges", "[%s] (step %d): Lookup(%#x) = %s, the latest covering registration says %s", strings.Join(hist, "; "), step+1, p, got, want)
					return
				}
			}
		}
	}
	c.Eval(1)
	c.Nontrivial()
}

// BFS with probe-vector canonicalisation (closure or depth cap).
func c17BFS(c *fw.Ctx, depthCap int) {
	seen := map[string]bool{}
	k0 := c17CheckHistory(c, nil)
	seen[k0] = true
	frontier := [][]int{nil}
	states, transitions := int64(1), int64(0)
	depth := 0
	for len(frontier) > 0 && depth < depthCap {
		next := [][]int{}
		for _, h := range frontier {
			for oi := range c17Ops {
				h2 := append(append([]int{}, h...), oi)
				k := c17CheckHistory(c, h2)
				transitions++
				if !seen[k] {
					seen[k] = true
					states++
					next = append(next, h2)
				}
			}
		}
		frontier = next
		depth++
	}
	c.Count("states", states)
	c.Count("transitions", transitions)
	if len(frontier) > 0 {
		c.Outcome(fmt.Sprintf("bfs-capped-at-depth-%d", depthCap))
		c.Note("bfs", fmt.Sprintf("probe-vector BFS reached depth %d with %d states, frontier %d (not closed)", depth, states, len(frontier)))
	} else {
		c.Outcome("bfs-closed")
		c.Note("bfs", fmt.Sprintf("probe-vector BFS closed at depth %d with %d states", depth, states))
	}
	c.Nontrivial()
}

// Derived check 1: a real tokenizer hands every character of a configured range to the configured state.
func c17Tokenizer(c *fw.Ctx, i int64) {
	// two registrations over endpoint ranges with states {word, symbol, none}
	nOps := int64(28 * 3)
	a, b := int(i/nOps), int(i%nOps)
	t := generic.NewGenericTokenizer()
	t.ClearCharacterStates()
	states := []tokenizers.ITokenizerState{t.WordState(), t.SymbolState(), nil}
	var ivs []c17Interval
	for _, oi := range []int{a, b} {
		o := c17Ops[oi]
		t.SetCharacterState(o.start, o.end, states[o.ref])
		ivs = append(ivs, c17Interval{o.start, o.end, o.ref})
	}
	for _, p := range c17Probes {
		var got tokenizers.ITokenizerState
		pv := fw.Try(func() { got = t.GetCharacterState(p) })
		want := states[c17ModelLookup(ivs, p)]
		if pv != nil || got != want {
			side := "below-0x100"
			if p >= 0x100 {
				side = "above-0xFF"
			}
			c.Violation("tokenizer-dispatch-"+side, "SetCharacterState %s; %s: GetCharacterState(%#x) = %T, configured %T (panic=%v)", c17Ops[a], c17Ops[b], p, got, want, pv)
		}
	}
	c.Eval(1)
	if c17Ops[a].end >= 0x100 || c17Ops[b].end >= 0x100 {
		c.Nontrivial()
	}
}

// ---- user-defined states of a type that cannot be compared with == (a struct value holding a slice)

type c17CustomState struct {
	tag  int
	junk []int
}

func (s c17CustomState) NextToken(scanner rio.IScanner, tokenizer tokenizers.ITokenizer) *tokenizers.Token {
	ch := scanner.Read()
	return tokenizers.NewToken(tokenizers.Special, string(ch), scanner.Line(), scanner.Column())
}

// ---- a second state object of every built-in kind (it satisfies the kind's interface), configured for a
// range of one of the four tokenizers: every character of the range must be handed to THAT object

type c17Handed struct{ calls int }

func (h *c17Handed) next(sc rio.IScanner) *tokenizers.Token {
	h.calls++
	l, col := sc.PeekLine(), sc.PeekColumn()
	return tokenizers.NewToken(tokenizers.Special, string(sc.Read()), l, col)
}

type c17SecondWhitespace struct {
	*generic.GenericWhitespaceState
	h *c17Handed
}
type c17SecondWord struct {
	*generic.GenericWordState
	h *c17Handed
}
type c17SecondNumber struct {
	*generic.GenericNumberState
	h *c17Handed
}
type c17SecondQuote struct {
	*generic.GenericQuoteState
	h *c17Handed
}
type c17SecondComment struct {
	*generic.GenericCommentState
	h *c17Handed
}
type c17SecondSymbol struct {
	*generic.GenericSymbolState
	h *c17Handed
}
type c17SecondPlain struct{ h *c17Handed }

func (s c17SecondWhitespace) NextToken(sc rio.IScanner, t tokenizers.ITokenizer) *tokenizers.Token {
	return s.h.next(sc)
}
func (s c17SecondWord) NextToken(sc rio.IScanner, t tokenizers.ITokenizer) *tokenizers.Token {
	return s.h.next(sc)
}
func (s c17SecondNumber) NextToken(sc rio.IScanner, t tokenizers.ITokenizer) *tokenizers.Token {
	return s.h.next(sc)
}
func (s c17SecondQuote) NextToken(sc rio.IScanner, t tokenizers.ITokenizer) *tokenizers.Token {
	return s.h.next(sc)
}
func (s c17SecondComment) NextToken(sc rio.IScanner, t tokenizers.ITokenizer) *tokenizers.Token {
	return s.h.next(sc)
}
func (s c17SecondSymbol) NextToken(sc rio.IScanner, t tokenizers.ITokenizer) *tokenizers.Token {
	return s.h.next(sc)
}
func (s c17SecondPlain) NextToken(sc rio.IScanner, t tokenizers.ITokenizer) *tokenizers.Token {
	return s.h.next(sc)
}

var c17SecondKinds = []string{"whitespace", "word", "number", "quote", "comment", "symbol", "plain"}
var c17SecondRanges = [][2]rune{{'_', '_'}, {'0', '9'}, {' ', ' '}, {0xe9, 0xe9}, {0x2000, 0x200a}, {0xfffe, 0xfffe}}

func c17HandOver(c *fw.Ctx, i int64) {
	kind := tokKinds[int(i)%len(tokKinds)]
	i /= int64(len(tokKinds))
	if kind == "mustache" {
		c.Count("skipped_template_text_outside_tags_has_its_own_state", 1)
		return
	}
	sk := int(i) % len(c17SecondKinds)
	rg := c17SecondRanges[int(i)/len(c17SecondKinds)]
	h := &c17Handed{}
	var st tokenizers.ITokenizerState
	switch sk {
	case 0:
		st = c17SecondWhitespace{generic.NewGenericWhitespaceState(), h}
	case 1:
		st = c17SecondWord{generic.NewGenericWordState(), h}
	case 2:
		st = c17SecondNumber{generic.NewGenericNumberState(), h}
	case 3:
		st = c17SecondQuote{generic.NewGenericQuoteState(), h}
	case 4:
		st = c17SecondComment{generic.NewGenericCommentState(), h}
	case 5:
		st = c17SecondSymbol{generic.NewGenericSymbolState(), h}
	default:
		st = c17SecondPlain{h}
	}
	t := newTokenizer(kind)
	setter, ok := t.(interface {
		SetCharacterState(rune, rune, tokenizers.ITokenizerState)
	})
	if !ok {
		c.Count("skipped_tokenizer_without_SetCharacterState", 1)
		return
	}
	c.Eval(1)
	c.Nontrivial()
	if pv := fw.Try(func() { setter.SetCharacterState(rg[0], rg[1], st) }); pv != nil {
		c.Violation("tokenizer-hands-over:panic", "%s tokenizer, SetCharacterState(%#x, %#x, a second %s state): panic %s", kind, rg[0], rg[1], c17SecondKinds[sk], panicShort(pv))
		return
	}
	for _, p := range []rune{rg[0], rg[1]} {
		for _, text := range []string{string(p), string([]rune{p, p, p})} {
			h.calls = 0
			res := tokenizeOn(t, text)
			n := len([]rune(text))
			good := !res.failed() && len(res.toks) >= n && h.calls == n
			if good {
				for k := 0; k < n; k++ {
					if res.toks[k].typ != tokenizers.Special || res.toks[k].val != string(p) {
						good = false
					}
				}
			}
			if !good {
				detail := tokStr(res.toks)
				if res.failed() {
					detail = res.failStr()
				}
				c.Violation("tokenizer-hands-over:"+c17SecondKinds[sk], "%s tokenizer with U+%04X..U+%04X configured for a second %s state object: over %q that object was called %d times (one call per character expected), tokens %s", kind, rg[0], rg[1], c17SecondKinds[sk], text, h.calls, detail)
				return
			}
		}
	}
}

func c17TokenizerCustom(c *fw.Ctx, i int64) {
	nOps := int64(28 * 3)
	a, b := int(i/nOps), int(i%nOps)
	t := generic.NewGenericTokenizer()
	t.ClearCharacterStates()
	var ivs []c17Interval
	for _, oi := range []int{a, b} {
		o := c17Ops[oi]
		var st tokenizers.ITokenizerState
		if o.ref < 2 {
			st = c17CustomState{tag: o.ref, junk: []int{o.ref}}
		}
		if pv := fw.Try(func() { t.SetCharacterState(o.start, o.end, st) }); pv != nil {
			c.Violation("tokenizer-dispatch-custom-state-panics", "SetCharacterState %s; %s with states of a non-comparable type: panic %s", c17Ops[a], c17Ops[b], panicShort(pv))
			return
		}
		ivs = append(ivs, c17Interval{o.start, o.end, o.ref})
	}
	for _, p := range c17Probes {
		var got tokenizers.ITokenizerState
		pv := fw.Try(func() { got = t.GetCharacterState(p) })
		want := c17ModelLookup(ivs, p)
		gotTag := 2
		if cs, ok := got.(c17CustomState); ok {
			gotTag = cs.tag
		}
		if pv != nil || gotTag != want {
			c.Violation("tokenizer-dispatch-custom-state", "SetCharacterState %s; %s (states of a non-comparable type): GetCharacterState(%#x) has tag %d, configured %d (panic=%v)", c17Ops[a], c17Ops[b], p, gotTag, want, pv)
			return
		}
	}
	c.Eval(1)
	c.Nontrivial()
}

// Derived check 2: enabling/disabling word and whitespace ranges is observable
// through the states' own tokenization, on both sides of U+0100.
func c17WordChars(c *fw.Ctx, i int64) {
	nOps := int64(28 * 2)
	a, b := int(i/nOps)%int(nOps), int(i%nOps)
	mode := int(i / (nOps * nOps)) // 0 word, 1 whitespace (both cleared first); 2, 3: the same on top of the states' default ranges
	which, onDefaults := mode%2, mode >= 2
	mk := func(k int) (rune, rune, bool) {
		o := c17Ops[k%28]
		return o.start, o.end, k/28 == 0
	}
	var ivs []c17Interval
	ws := generic.NewGenericWordState()
	ss := generic.NewGenericWhitespaceState()
	var defaults []c17Interval
	if !onDefaults {
		ws.ClearWordChars()
		ss.ClearWhitespaceChars()
	} else if which == 0 {
		defaults = []c17Interval{{'a', 'z', 0}, {'A', 'Z', 0}, {'0', '9', 0}, {'-', '-', 0}, {'_', '_', 0}, {0xc0, 0xff, 0}, {0x100, 0xfffe, 0}}
	} else {
		defaults = []c17Interval{{0, ' ', 0}}
	}
	ivs = append(ivs, defaults...)
	for _, k := range []int{a, b} {
		s, e, en := mk(k)
		if which == 0 {
			ws.SetWordChars(s, e, en)
		} else {
			ss.SetWhitespaceChars(s, e, en)
		}
		r := 2
		if en {
			r = 0
		}
		ivs = append(ivs, c17Interval{s, e, r})
	}
	// a state is only ever entered at a character handed to it: every probe text starts with an enabled
	// character ('q' is enabled last of all; what a state does when called on a character that is not
	// its own is not pinned)
	if which == 0 {
		ws.SetWordChars('q', 'q', true)
	} else {
		ss.SetWhitespaceChars('q', 'q', true)
	}
	ivs = append(ivs, c17Interval{'q', 'q', 0})
	for _, p := range c17Probes {
		if p == 0 {
			continue
		}
		if onDefaults && p >= 0xffff {
			continue // whether the default word range ends at U+FFFE or U+FFFF is not pinned
		}
		for ti, text := range []string{string([]rune{'q', p, '!'}), string([]rune{p, 'q', ' ', p}), string([]rune{' ', p, 'q'})} {
			var tok *tokenizers.Token
			pv := fw.Try(func() {
				sc := rio.NewStringScanner(text)
				if which == 0 {
					tok = ws.NextToken(sc, nil)
				} else {
					tok = ss.NextToken(sc, nil)
				}
			})
			want := ""
			for _, ch := range text {
				if c17ModelLookup(ivs, ch) != 0 {
					break
				}
				want += string(ch)
			}
			// a second, untouched state of the same kind keeps its default ranges whatever was toggled on the first
			if onDefaults && ti > 0 && c17ModelLookup(defaults, []rune(text)[0]) == 0 {
				var tok2 *tokenizers.Token
				pv2 := fw.Try(func() {
					sc := rio.NewStringScanner(text)
					if which == 0 {
						tok2 = generic.NewGenericWordState().NextToken(sc, nil)
					} else {
						tok2 = generic.NewGenericWhitespaceState().NextToken(sc, nil)
					}
				})
				want2 := ""
				for _, ch := range text {
					if c17ModelLookup(defaults, ch) != 0 {
						break
					}
					want2 += string(ch)
				}
				if pv2 != nil || tok2 == nil || tok2.Value() != want2 {
					c.Violation("range-toggle-reaches-another-instance", "%s %v then %v on one state: an untouched NEW state of that kind reads %q from %q, its default ranges say %q (panic=%v)", []string{"SetWordChars", "SetWhitespaceChars"}[which], ivs[len(ivs)-2], ivs[len(ivs)-1], func() string {
						if tok2 == nil {
							return "<nil>"
						}
						return tok2.Value()
					}(), text, want2, pv2)
				}
			}
			if want == "" {
				continue // the text does not start with a character of this state
			}
			if pv != nil || tok == nil || tok.Value() != want {
				got := "<nil>"
				if tok != nil {
					got = tok.Value()
				}
				name := []string{"SetWordChars", "SetWhitespaceChars"}[which]
				side := "below-0x100"
				if p >= 0x100 {
					side = "above-0xFF"
				}
				if onDefaults {
					side += "-on-default-ranges"
				}
				c.Violation("range-toggle-"+side, "%s %v then %v (cleared first: %v): token over %q is %q, want %q (panic=%v)", name, ivs[len(ivs)-2], ivs[len(ivs)-1], !onDefaults, text, got, want, pv)
			}
		}
	}
	c.Eval(1)
	c.Nontrivial()
}

func init() {
	fw.Register(&fw.Check{
		ID:    "C17",
		Level: "model_checking",
		Rule: "all histories of AddInterval/AddDefaultInterval/Clear over the boundary endpoints x {A,B,nil} up to the depth bound, each replayed on a fresh CharReferenceMap and compared probe by probe (17 probes: endpoints and neighbours) with an interval-list model by reference identity; " +
			"plus three adjacent ranges (five sets on both sides of U+0100) in all six orders with all reference assignments; plus every pair of registrations of which one or both are open to the end of the table (end U+FFFF); plus one registration followed by 255..257 and 65535..65537 Clear() calls; plus every triple of registrations above U+00FF on top of 13..255 live filler registrations; plus an explicit-state BFS with the probe vector as state key; plus derived checks through a real tokenizer's dispatch table, a second state object of every built-in kind configured for six ranges of the generic, expression and CSV tokenizers (every character must be handed to that object) and the word/whitespace states' range toggles (after Clear and on top of the default ranges, three probe texts that start with a character enabled for the state, and an untouched second state must keep its defaults); every history is non-trivial except the empty one",
		Assume: []string{"probe-vector canonicalisation: equal probe vectors have equal futures on the probes for any implementation that answers lookups from the latest covering registration; the un-merged full enumeration does not rely on it"},
		Spaces: func(tier string) []fw.Space {
			depth, bfsDepth := 2, 3
			if tier == "thorough" {
				depth, bfsDepth = 3, 5
			}
			k := len(c17Ops)
			nOps := int64(28 * 3)
			return []fw.Space{
				{Name: "histories", N: countStrings(k, depth),
					Run: func(c *fw.Ctx, i int64) {
						h := seqByIndex(k, i)
						c17CheckHistory(c, h)
						c.Count("states", 1)
						c.Count("transitions", int64(len(h)))
						if len(h) > 0 {
							c.Nontrivial()
						}
					},
					Repr: func(i int64) string { return "[" + c17HistStr(seqByIndex(k, i)) + "]" }},
				{Name: "high-range-triples", N: int64(len(c17HighOps())) * int64(len(c17HighOps())) * int64(len(c17HighOps())), Run: func(c *fw.Ctx, i int64) {
					ho := c17HighOps()
					n := int64(len(ho))
					c17CheckHistory(c, []int{ho[i/(n*n)], ho[i/n%n], ho[i%n]})
					c.Nontrivial()
				},
					Repr: func(i int64) string {
						ho := c17HighOps()
						n := int64(len(ho))
						return "[" + c17HistStr([]int{ho[i/(n*n)], ho[i/n%n], ho[i%n]}) + "]"
					}},
				{Name: "long-live-histories", N: int64(len(c17LongSizes())) * int64(len(c17HighOps())) * int64(len(c17HighOps())) * int64(len(c17HighOps())), Run: func(c *fw.Ctx, i int64) {
					ho := c17HighOps()
					n := int64(len(ho))
					t := i % (n * n * n)
					c17LongHistory(c, c17LongSizes()[i/(n*n*n)], []int{ho[t/(n*n)], ho[t/n%n], ho[t%n]})
				}, Repr: func(i int64) string {
					ho := c17HighOps()
					n := int64(len(ho))
					t := i % (n * n * n)
					return fmt.Sprintf("%d filler registrations, then [%s]", c17LongSizes()[i/(n*n*n)], c17HistStr([]int{ho[t/(n*n)], ho[t/n%n], ho[t%n]}))
				}},
				{Name: "adjacent-ranges", N: int64(len(c17AdjacentSets) * 6 * 27), Run: func(c *fw.Ctx, i int64) {
					refs := int(i) % 27
					c17Adjacent(c, int(i)/(6*27), int(i)/27%6, refs%3|(refs/3%3)<<2|(refs/9)<<4)
				}, Repr: func(i int64) string {
					return fmt.Sprintf("three adjacent ranges (set %d) registered in order #%d with references #%d", i/(6*27), i/27%6, i%27)
				}},
				{Name: "many-clears", N: int64(len(c17ClearCounts) * len(c17Ops)), Timeout: 300e9, Run: func(c *fw.Ctx, i int64) {
					c17ManyClears(c, c17ClearCounts[int(i)/len(c17Ops)], int(i)%len(c17Ops))
				}, Repr: func(i int64) string {
					return fmt.Sprintf("%s, then %d x Clear(), lookups, one more registration, lookups", c17Ops[int(i)%len(c17Ops)], c17ClearCounts[int(i)/len(c17Ops)])
				}},
				{Name: "pumped-histories", N: (countStrings(k, 2) - 1) * 6, Run: func(c *fw.Ctx, i int64) {
					base := seqByIndex(k, 1+i/6)
					n := []int{3, 8, 9, 17, 33, 65}[i%6]
					h := []int{}
					for len(h) < n*len(base) {
						h = append(h, base...)
					}
					c17CheckHistory(c, h)
					c.Nontrivial()
				},
					Repr: func(i int64) string {
						return fmt.Sprintf("[%s] repeated %d times", c17HistStr(seqByIndex(k, 1+i/6)), []int{3, 8, 9, 17, 33, 65}[i%6])
					}},
				{Name: "bfs", N: 1, Timeout: 600e9,
					Run:  func(c *fw.Ctx, i int64) { c17BFS(c, bfsDepth) },
					Repr: func(i int64) string { return "probe-vector BFS" }},
				{Name: "tokenizer-dispatch", N: nOps * nOps, Run: c17Tokenizer,
					Repr: func(i int64) string {
						return fmt.Sprintf("SetCharacterState %s; %s (ref A=word state, B=symbol state)", c17Ops[int(i/nOps)], c17Ops[int(i%nOps)])
					}},
				{Name: "tokenizer-dispatch-custom-states", N: nOps * nOps, Run: c17TokenizerCustom,
					Repr: func(i int64) string {
						return fmt.Sprintf("SetCharacterState %s; %s with user-defined states of a non-comparable type", c17Ops[int(i/nOps)], c17Ops[int(i%nOps)])
					}},
				{Name: "open-ended-ranges", N: int64(2*len(c17Ops)*(len(c17OpsExt)-c17OpenFirst) + (len(c17OpsExt)-c17OpenFirst)*(len(c17OpsExt)-c17OpenFirst)),
					Run: func(c *fw.Ctx, i int64) { c17CheckHistory(c, c17OpenHistory(i)); c.Nontrivial() },
					Repr: func(i int64) string { return "[" + c17HistStr(c17OpenHistory(i)) + "]" }},
				{Name: "tokenizer-hands-over", N: int64(len(tokKinds) * len(c17SecondKinds) * len(c17SecondRanges)), Run: c17HandOver,
					Repr: func(i int64) string {
						k := int(i) / len(tokKinds)
						rg := c17SecondRanges[k/len(c17SecondKinds)]
						return fmt.Sprintf("%s tokenizer, U+%04X..U+%04X configured for a second %s state object", tokKinds[int(i)%len(tokKinds)], rg[0], rg[1], c17SecondKinds[k%len(c17SecondKinds)])
					}},
				{Name: "range-toggle", N: 4 * 56 * 56, Run: c17WordChars,
					Repr: func(i int64) string { return fmt.Sprintf("range-toggle#%d", i) }},
			}
		},
		Bounds: func(tier string) string {
			if tier == "thorough" {
				return "all 88^0..88^3 histories un-merged; probe-vector BFS to depth 5 or closure; all pairs of tokenizer registrations; all pairs of range toggles"
			}
			return "all histories of length<=2 un-merged; probe-vector BFS to depth 3; all pairs of tokenizer registrations and range toggles"
		},
	})
}
