#!/bin/bash
# Build the framework once (warms the Go build cache); offline, files on disk only.
# A failure here is reported but does not stop anything: run_check.sh builds what it needs itself.
VERIF=$(cd "$(dirname "$0")" && pwd)
export VERIF_DIR=$VERIF
export GOFLAGS=-mod=mod GOPROXY=off GOSUMDB=off GOTOOLCHAIN=local GOCACHE=$VERIF/.gocache TZ=UTC
mkdir -p "$VERIF/bin"
(
  flock 9
  cd "$VERIF/mc" || exit 1
  sed "s#@REPO@#${VERIF_REPO:-/repo}#" go.mod.tmpl > go.mod
  cat "${VERIF_REPO:-/repo}/go.sum" > go.sum
  go build -o "$VERIF/bin/gen" ./cmd/gen || exit 1
  # -checklinkname=0: checks/randseam.go reaches the process-wide generator of math/rand
  "$VERIF/bin/gen" "${VERIF_REPO:-/repo}" "$VERIF/bin/overlay.setup" instrument >/dev/null || exit 1
  go build -ldflags=-checklinkname=0 -overlay "$VERIF/bin/overlay.setup/overlay.json" -o "$VERIF/bin/check" ./cmd/check || exit 1
  "$VERIF/bin/gen" "${VERIF_REPO:-/repo}" "$VERIF/bin/overlay.setup" >/dev/null || exit 1
  go build -ldflags=-checklinkname=0 -overlay "$VERIF/bin/overlay.setup/overlay.json" -o "$VERIF/bin/check" ./cmd/check || exit 1
  # warm the -race build cache (C19's auxiliary race-detector pass)
  go build -race -ldflags=-checklinkname=0 -overlay "$VERIF/bin/overlay.setup/overlay.json" -o "$VERIF/bin/check.race" ./cmd/check || exit 1
  rm -rf "$VERIF/bin/overlay.setup" "$VERIF/bin/check.race"
) 9>"$VERIF/bin/.lock"
rc=$?
if [ $rc -eq 0 ]; then
  echo "setup ok: $("$VERIF/bin/check" list | tr '\n' ' ')"
else
  echo "setup: warm-up build failed (run_check.sh will build on its own and report BUILD-FAILED if it cannot)" >&2
fi
exit 0
