package checks

import (
	"fmt"
	"strings"

	"verifmc/fw"

	"github.com/pip-services3-gox/pip-services3-expressions-gox/tokenizers"
)

// C04 — tokenization is lossless with all options off.

var tokAlphabets = map[string][]rune{
	"generic":    []rune("a1.-/*\"'<>=#e \n\réя\U0001F600"),
	"expression": []rune("a1.-+/*\"'<>=!eE_ \néя\U0001F600"),
	"csv":        []rune("a,\";\n\r я"),
	"mustache":   []rune("a{}#/!' я\U0001F600"),
	"generic+cpp": []rune("a1/*-.\" \n\rя"),
	"csv+latin1":  []rune("a\u00a6\u00ab\u00ff\n\r я"),
	"csv+wide":    []rune("a\u2192;\u201d'\n я"),
}

func c04Lossy(toks []tokRec, text string) bool {
	var sb strings.Builder
	for _, t := range toks {
		sb.WriteString(t.val)
	}
	return sb.String() != text
}

// small context alphabets for the character sweep and the pumped inputs
var tokContextAlphabets = map[string][]rune{
	"generic":     []rune("a1-'< "),
	"expression":  []rune("a1.'/ "),
	"csv":         []rune("a,\"\n"),
	"mustache":    []rune("a{}' "),
	"generic+cpp": []rune("a/*1"),
	"csv+latin1":  []rune("a\u00a6\u00ab\n"),
	"csv+wide":    []rune("a\u2192\u201d\n"),
}

var c04Reused = map[string]tokenizers.ITokenizer{}
var c04NoopUses = map[string]int{}

func c04Run(c *fw.Ctx, kind string, text string) {
	// inputs of up to 4 characters get a fresh tokenizer each (and the TokenizeBuffer
	// differential); longer ones share one instance per worker for speed (history
	// independence is C05's subject) and are re-run on a fresh instance before reporting.
	fresh := len([]rune(text)) <= 4
	var res tokResult
	if fresh {
		res = tokenize(kind, 0, text)
	} else {
		t := c04Reused[kind]
		if t == nil {
			t = newTokenizer(kind)
			setOptions(t, 0)
			c04Reused[kind] = t
		}
		res = tokenizeOn(t, text)
		if res.failed() || c04Lossy(res.toks, text) {
			// attribute: does a fresh instance fail too?
			delete(c04Reused, kind)
			r2 := tokenize(kind, 0, text)
			if !r2.failed() && !c04Lossy(r2.toks, text) {
				c.Violation("lossy-only-on-reused-instance:"+kind, "%s tokenizer, input %q: a reused instance gives %s (%v), a fresh one is lossless", kind, text, tokShort(res.toks), res.panic)
				return
			}
			res = r2
		}
	}
	c.Eval(1)
	if res.failed() {
		sig := "tokenize-panic"
		if _, ok := res.panic.(budgetExceeded); ok {
			sig = "tokenize-nonterminating"
		}
		c.Violation(sig+":"+kind, "%s tokenizer, options off, input %q: %s", kind, text, res.failStr())
		return
	}
	if res.unreads > 0 {
		c.Nontrivial()
	}
	// look-ahead, then setters that change nothing (the table entries / separator and quote lists the
	// tokenizer already has), then the fetch: still every character exactly once
	if len([]rune(text)) <= 6 {
		// (renewed every 64 uses: each re-registration above U+00FF adds an interval to the table)
		c04NoopUses[kind]++
		t := c04Reused[kind+"#noop"]
		if t == nil || c04NoopUses[kind]%64 == 0 {
			t = newTokenizer(kind)
			setOptions(t, 0)
			c04Reused[kind+"#noop"] = t
		}
		r3 := tokenizeWithNoopSetters(t, 0, text, 2)
		c.Eval(1)
		if r3.failed() || tokStr(r3.toks) != tokStr(res.toks) {
			delete(c04Reused, kind+"#noop")
			t = newTokenizer(kind) // a fresh instance decides
			setOptions(t, 0)
			r3 = tokenizeWithNoopSetters(t, 0, text, 2)
		}
		if r3.failed() || tokStr(r3.toks) != tokStr(res.toks) {
			detail := tokShort(r3.toks)
			if r3.failed() {
				detail = r3.failStr()
			}
			c.Violation("lossy-when-table-is-rewritten-mid-stream:"+kind, "%s tokenizer, input %q: re-registering the current character states between HasNextToken() and NextToken() gives %s, an undisturbed iteration gives %s", kind, text, detail, tokShort(res.toks))
		}
	}
	toks := res.toks
	var sb strings.Builder
	for _, t := range toks {
		sb.WriteString(t.val)
	}
	if sb.String() != text {
		// classify: which character was invented / dropped / replaced
		sig := "lossy"
		got := []rune(sb.String())
		in := []rune(text)
		switch {
		case len(got) == len(in):
			sig = "char-replaced"
			for i := range in {
				if got[i] != in[i] {
					if got[i] == 0xFFFD {
						sig = fmt.Sprintf("char-replaced-by-U+FFFD(%q)", string(in[i]))
					} else {
						sig = fmt.Sprintf("char-replaced(%q->%q)", string(in[i]), string(got[i]))
					}
					break
				}
			}
		case len(got) < len(in):
			sig = "char-dropped"
		default:
			sig = "char-invented"
		}
		c.Violation(sig+":"+kind, "%s tokenizer, options off, input %q: token values %s concatenate to %q", kind, text, tokShort(toks), sb.String())
		c.Outcome("lossy")
		return
	}
	if len(toks) == 0 || toks[len(toks)-1].typ != tokenizers.Eof || toks[len(toks)-1].val != "" {
		c.Violation("missing-eof:"+kind, "%s tokenizer, input %q: last token is not the end-of-input marker: %s", kind, text, tokShort(toks))
		return
	}
	for i, t := range toks[:len(toks)-1] {
		if t.val == "" {
			c.Violation("empty-token:"+kind, "%s tokenizer, input %q: token %d is empty: %s", kind, text, i, tokShort(toks))
			return
		}
		if t.typ == tokenizers.Eof {
			c.Violation("early-eof:"+kind, "%s tokenizer, input %q: end-of-input marker before the end: %s", kind, text, tokShort(toks))
			return
		}
	}
	c.Outcome(fmt.Sprintf("%s:tokens=%d", kind, len(toks)))
	if !fresh {
		return
	}
	// differential: the public TokenizeBuffer entry point gives the same stream
	t2 := newTokenizer(kind)
	setOptions(t2, 0)
	var b []*tokenizers.Token
	if pv := fw.Try(func() { b = t2.TokenizeBuffer(text) }); pv != nil || len(b) != len(toks) {
		c.Violation("buffer-vs-stream:"+kind, "%s tokenizer, input %q: TokenizeBuffer differs from NextToken loop (panic=%v, %d vs %d tokens)", kind, text, pv, len(b), len(toks))
	} else {
		for i := range b {
			if b[i].Type() != toks[i].typ || b[i].Value() != toks[i].val {
				c.Violation("buffer-vs-stream:"+kind, "%s tokenizer, input %q: TokenizeBuffer token %d differs", kind, text, i)
				break
			}
		}
	}
}

func init() {
	fw.Register(&fw.Check{
		ID:    "C04",
		Level: "model_checking",
		Rule: "Also: the generic and the expression tokenizer configured with symbols of the user's own (one with an unregistered prefix, some starting with the sign) and a whitespace character the dispatch table does not start a whitespace on, every string up to length 4..6 over an 11-character alphabet. every string up to the length bound over a per-tokenizer alphabet with one representative of each character class that selects a different state or look-ahead branch; all seven options off; plus every one of 183 boundary characters (aliases modulo 2^8 and 2^16 and up to four characters of every Unicode general category among them) (incl. the aliases of 19 syntax characters modulo 2^8 and 2^16; controls incl. NUL, each ASCII class edge, Latin-1, 0xFF/0x100, general punctuation, 0xFFFD..0xFFFF, first astral, U+10FFFF) in every context of up to 2+2 characters, and every pattern of <=3 characters repeated k times for 13 (thorough 24) sizes around powers of two up to 1000 (plus a generic tokenizer configured with the C++ comment state, whose code the built-in tokenizers only partly reach); " +
			"oracle: token values concatenate to the input, tokens non-empty, single trailing Eof, TokenizeBuffer == NextToken loop; non-trivial = input on which some state pushed back at least one character (counted by the scanner wrapper)",
		Assume: []string{"one representative per character class stands for the class", "termination decided by a deterministic scanner step budget of 64*(len+2)"},
		Spaces: func(tier string) []fw.Space {
			lens := map[string]int{"generic": 4, "expression": 4, "csv": 5, "mustache": 5, "generic+cpp": 5, "csv+latin1": 5, "csv+wide": 5}
			if tier == "thorough" {
				lens = map[string]int{"generic": 6, "expression": 6, "csv": 8, "mustache": 7, "generic+cpp": 7, "csv+latin1": 7, "csv+wide": 7}
			}
			sp := []fw.Space{}
			for _, kind := range append(append([]string{}, tokKindsExt...), "generic+cpp") {
				kind := kind
				al := tokAlphabets[kind]
				sp = append(sp, fw.Space{Name: kind, N: countStrings(len(al), lens[kind]),
					Run:  func(c *fw.Ctx, i int64) { c04Run(c, kind, stringByIndex(al, i)) },
					Repr: func(i int64) string { return fmt.Sprintf("%s tokenizer, input %q", kind, stringByIndex(al, i)) }})
			}
			for _, kind := range tokKindsCustom {
				kind := kind
				cl := 5
				if tier == "thorough" {
					cl = 6
				}
				sp = append(sp, fw.Space{Name: kind, N: countStrings(len(customAlphabet), cl),
					Run:  func(c *fw.Ctx, i int64) { c04Run(c, kind, stringByIndex(customAlphabet, i)) },
					Repr: func(i int64) string { return fmt.Sprintf("%s tokenizer, input %q", kind, stringByIndex(customAlphabet, i)) }})
			}
			// sequences of whole lexemes (keywords in several letter cases, numbers, strings, comments, symbols)
			// written next to each other without any separator
			lexLen := 2
			if tier == "thorough" {
				lexLen = 3
			}
			for _, kind := range []string{"generic", "expression"} {
				kind := kind
				pool := c13Pool(kind)
				sp = append(sp, fw.Space{Name: "lexemes-" + kind, N: countStrings(len(pool), lexLen),
					Run: func(c *fw.Ctx, i int64) {
						var sb strings.Builder
						for _, k := range seqByIndex(len(pool), i) {
							sb.WriteString(pool[k].text)
						}
						c04Run(c, kind, sb.String())
					},
					Repr: func(i int64) string {
						var sb strings.Builder
						for _, k := range seqByIndex(len(pool), i) {
							sb.WriteString(pool[k].text)
						}
						return fmt.Sprintf("%s tokenizer, input %q", kind, sb.String())
					}})
			}
			counts := pumpCountsSmall
			if tier == "thorough" {
				counts = pumpCounts
			}
			for _, kind := range append(append([]string{}, tokKindsExt...), "generic+cpp") {
				kind := kind
				ca := tokContextAlphabets[kind]
				nctx := contextsCount(ca, 2)
				sp = append(sp, fw.Space{Name: "charsweep-doubled-" + kind, N: int64(len(boundaryChars)) * (1 + int64(len(ca))),
					Run: func(c *fw.Ctx, i int64) {
						ch := string(boundaryChars[i/(1+int64(len(ca)))])
						mid := ""
						if k := i % (1 + int64(len(ca))); k > 0 {
							mid = string(ca[k-1])
						}
						c04Run(c, kind, ch+mid+ch)
					},
					Repr: func(i int64) string {
						ch := string(boundaryChars[i/(1+int64(len(ca)))])
						mid := ""
						if k := i % (1 + int64(len(ca))); k > 0 {
							mid = string(ca[k-1])
						}
						return fmt.Sprintf("%s tokenizer, input %q (a boundary character on both sides of a short middle)", kind, ch+mid+ch)
					}})
				sp = append(sp, fw.Space{Name: "charsweep-" + kind, N: nctx * int64(len(boundaryChars)),
					Run: func(c *fw.Ctx, i int64) {
						pre, suf := contextByIndex(ca, 2, i%nctx)
						c04Run(c, kind, pre+string(boundaryChars[i/nctx])+suf)
					},
					Repr: func(i int64) string {
						pre, suf := contextByIndex(ca, 2, i%nctx)
						return fmt.Sprintf("%s tokenizer, input %q", kind, pre+string(boundaryChars[i/nctx])+suf)
					}})
				npat := countStrings(len(ca), 3) - 1
				sp = append(sp, fw.Space{Name: "pumped-" + kind, N: npat * int64(len(counts)),
					Run: func(c *fw.Ctx, i int64) {
						c04Run(c, kind, pumped(stringByIndex(ca, 1+i%npat), counts[i/npat]))
					},
					Repr: func(i int64) string {
						return fmt.Sprintf("%s tokenizer, input %q repeated %d times", kind, stringByIndex(ca, 1+i%npat), counts[i/npat])
					}})
			}
			// change-directed: literals that are new in the working tree as extra letters
			if na := newAtoms(5); len(na) > 0 {
				atoms := append(append([]string{}, na...), "a")
				for _, kind := range tokKinds {
					kind := kind
					sp = append(sp, fw.Space{Name: "new-literals-" + kind, N: countStrings(len(atoms), 7),
						Run:  func(c *fw.Ctx, i int64) { c04Run(c, kind, strings.Join(lexemesByIndex(atoms, i), "")) },
						Repr: func(i int64) string { return fmt.Sprintf("%s tokenizer, input %q (letters incl. literals new in the working tree: %q)", kind, strings.Join(lexemesByIndex(atoms, i), ""), na) }})
				}
			}
			return sp
		},
		Bounds: func(tier string) string {
			if tier == "thorough" {
				return "character sweep: 183 boundary characters (aliases modulo 2^8 and 2^16 and up to four characters of every Unicode general category among them) in every context of <=2+2 characters; pumped: every pattern of <=3 characters repeated 2..1000 times (24 sizes); generic: len<=6 over 19 chars; expression: len<=6 over 21; csv: len<=8 over 8; mustache: len<=7 over 10"
			}
			return "generic/expression: len<=4; csv/mustache: len<=5"
		},
	})
}
