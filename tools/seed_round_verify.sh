#!/bin/bash
# usage: seed_round_verify.sh <round-letter> <checks-root> <ids...>
# Confirms and stores the seeds of one round (worktrees /tmp/seed-<id>-<letter> written by the sub-agents)
# and runs the property's own check (plus C05 as a common cross-check) from <checks-root>
# (a frozen snapshot of /verif for the as-built score, or /verif itself).
L=$1; ROOT=$2; shift 2
for p in "$@"; do
  d=/tmp/seed-$p-$L
  [ -f $d/SEED/patch.diff ] || { echo "##### $p missing"; continue; }
  n=$(python3 -c "import json,re;m=json.load(open('$d/SEED/meta.json'));print(re.sub('[^a-z0-9]+','-',(m.get('name') or m.get('summary','seed')[:40]).lower()).strip('-')[:60])")
  echo "##### $p-$L $n"
  extra=""; [ $p != C05 ] && extra=C05
  SEED_VERIFY_CHECKS=$ROOT /verif/tools/seed_verify.sh $p $d $n quick $p $extra 2>&1 | grep -E '^demo|^stored|^check|apply|compile' | cut -c1-330
done
