package checks

import (
	c12tok "github.com/pip-services3-gox/pip-services3-expressions-gox/calculator/tokenizers"
	mparsers "github.com/pip-services3-gox/pip-services3-expressions-gox/mustache/parsers"
	"fmt"
	"regexp"
	"strconv"
	"strings"

	"verifmc/fw"

	cerr "github.com/pip-services3-gox/pip-services3-commons-gox/errors"
	"github.com/pip-services3-gox/pip-services3-expressions-gox/calculator/parsers"
	rio "github.com/pip-services3-gox/pip-services3-expressions-gox/io"
	"github.com/pip-services3-gox/pip-services3-expressions-gox/tokenizers"
)

// C12 — every token reports the line and column of its first character.

var c12Alphabets = map[string][]rune{
	"generic":    []rune("a1-'#<= \n\r\U0001F600"),
	"expression": []rune("a1'/*<= \n\r\U0001F600"),
	"csv":        []rune("a,\"\n\r \U0001F600"),
	"mustache":   []rune("a{}' \n\r\U0001F600#"),
	"csv+latin1": []rune("a\u00a6\u00ab\n\r\U0001F600"),
	"csv+wide":   []rune("a\u2192\u201d\n\r\U0001F600"),
}

var c12Operators = map[string]bool{"(": true, ")": true, "[": true, "]": true, "+": true, "-": true, "*": true, "/": true, "%": true, "^": true,
	"=": true, "<>": true, "!=": true, ">": true, "<": true, ">=": true, "<=": true, "<<": true, ">>": true, ",": true}

var c12PosRe = regexp.MustCompile(` at line (\d+) and column (\d+)$`)

// refPositions: reference (line,col) of each token of the option-free stream.
func refPositions(text string, base []tokRec) [][2]int {
	runes := []rune(text)
	// coordinates after reading characters 0..p, for every p, in one pass (same rule as forwardLC)
	lc := make([][2]int, len(runes)+1)
	at := func(i int) rune {
		if i < 0 || i >= len(runes) {
			return -1
		}
		return runes[i]
	}
	exotic := false
	for _, ch := range runes {
		if c11Exotic(ch) {
			exotic = true
		}
	}
	if exotic {
		// which of these characters break a line or take a column is not pinned: "as the scanner counts
		// them in a forward scan" is then taken literally, from a fresh scanner that is only read forward
		fs := rio.NewStringScanner(text)
		for i := range runes {
			fs.Read()
			lc[i] = [2]int{fs.Line(), fs.Column()}
		}
		runes = nil
	}
	line, col := 1, 0
	for i, ch := range runes {
		if ch == '\n' {
			line++
			col = 0
		} else if ch == '\r' {
			if at(i-1) != '\n' && at(i+1) != '\n' {
				line++
				col = 0
			}
		} else {
			col++
		}
		lc[i] = [2]int{line, col}
	}
	if exotic {
		runes = []rune(text)
		if len(runes) > 0 {
			lc[len(runes)] = lc[len(runes)-1]
		}
	} else {
		lc[len(runes)] = [2]int{line, col}
	}
	out := make([][2]int, len(base))
	off := 0
	for i, t := range base {
		if t.typ == tokenizers.Eof {
			if len(runes) == 0 {
				out[i] = [2]int{1, 1}
			} else {
				out[i] = [2]int{lc[len(runes)-1][0], lc[len(runes)-1][1] + 1}
			}
			continue
		}
		if off < len(lc) {
			out[i] = lc[off]
		}
		off += len([]rune(t.val))
	}
	return out
}

var c12Tok = map[string]tokenizers.ITokenizer{}

func c12Run(c *fw.Ctx, kind, text string, optSets []int) {
	base := tokenize(kind, 0, text)
	c.Eval(1)
	if base.failed() || c04Lossy(base.toks, text) {
		c.Count("skipped_base_not_lossless", 1)
		return
	}
	ref := refPositions(text, base.toks)
	// cross-check the rule model against a fresh real scanner (forward scan)
	{
		sc := rio.NewStringScanner(text)
		off := 0
		pos := 0
		for i, t := range base.toks {
			if t.typ == tokenizers.Eof {
				break
			}
			for pos <= off {
				sc.Read()
				pos++
			}
			if sc.Line() != ref[i][0] || sc.Column() != ref[i][1] {
				c.Violation("forward-scan-rule", "input %q: real forward scan to offset %d gives (%d,%d), rule model (%d,%d)", text, off, sc.Line(), sc.Column(), ref[i][0], ref[i][1])
			}
			off += len([]rune(t.val))
		}
	}
	multiline := strings.ContainsAny(text, "\r\n")
	for _, o := range optSets {
		var got tokResult
		if o == 0 {
			got = base
		} else {
			t := c12Tok[kind]
			if t == nil {
				t = newTokenizer(kind)
				c12Tok[kind] = t
			}
			setOptions(t, o)
			var again tokResult
			got, again = tokenizeOnTwice(t, text)
			if got.failed() || again.failed() {
				delete(c12Tok, kind)
			}
			c.Eval(2)
			if !got.failed() && tokStr(got.toks) != tokStr(again.toks) {
				c.Violation("position-differs-on-second-pass:"+kind, "%s tokenizer, options %s, input %q: the same scanner rewound with Reset() and tokenized again gives %s (failure: %s), the first pass gave %s", kind, optStr(o), text, tokStr(again.toks), again.failStr(), tokStr(got.toks))
			}
		}
		want, idx := refTransform(kind, o, base.toks)
		if got.failed() || !sameTV(got.toks, want) {
			c.Count("skipped_stream_differs_from_T(C15)", 1)
			continue
		}
		for k, t := range got.toks {
			w := ref[idx[k]]
			if t.line != w[0] || t.col != w[1] {
				// attribute: fresh instance
				g2 := tokenize(kind, o, text)
				if !g2.failed() && sameTV(g2.toks, want) && (g2.toks[k].line != w[0] || g2.toks[k].col != w[1]) {
					c.Violation(c12Classify(kind, o, base.toks, idx, k, t), "%s tokenizer, options %s, input %q: token %d %s reported at (%d,%d), its first character is at (%d,%d); stream %s", kind, optStr(o), text, k, fmt.Sprintf("%s%q", tokTypeName(t.typ), t.val), t.line, t.col, w[0], w[1], tokStr(g2.toks))
				} else {
					c.Violation("position-only-on-reused-instance:"+kind, "%s tokenizer, options %s, input %q: reused instance reports token %d at (%d,%d), want (%d,%d)", kind, optStr(o), text, k, t.line, t.col, w[0], w[1])
				}
				break
			}
		}
		if multiline && len(got.toks) >= 3 {
			c.Nontrivial()
		}
	}
	c.Outcome(fmt.Sprintf("%s:lines=%d", kind, 1+strings.Count(text, "\n")))

	// secondary (templates): a position quoted by the mustache parser is the position of a token, and where
	// the message quotes the offending symbol or variable, of a token with exactly that value
	// (like the expression parser, the mustache parser trims blanks around the text before tokenizing it,
	// so quoted positions are relative to the trimmed text: only texts without surrounding blanks are checked)
	if kind == "mustache" && text != "" && text == strings.Trim(text, " \t\r\n") {
		p := mparsers.NewMustacheParser()
		var err error
		if pv := fw.Try(func() { err = p.ParseString(text) }); pv == nil && err != nil {
			if ae, ok := err.(*cerr.ApplicationError); ok {
				if m := c12PosRe.FindStringSubmatch(ae.Message); m != nil {
					l, _ := strconv.Atoi(m[1])
					col, _ := strconv.Atoi(m[2])
					quoted := ""
					for _, lead := range []string{"Unexpected symbol '", "section end for variable '", "section for variable '"} {
						if i := strings.Index(ae.Message, lead); i >= 0 {
							rest := ae.Message[i+len(lead):]
							if j := strings.LastIndex(rest, "' at line"); j >= 0 {
								quoted = rest[:j]
							}
						}
					}
					found, valueOK := false, false
					// a rejected section end: the offending token is that end tag (the quoted name is the open section's)
					endTag := make([]bool, len(base.toks))
					for i := 0; i < len(base.toks); i++ {
						if base.toks[i].typ == tokenizers.Symbol && strings.HasPrefix(base.toks[i].val, "{{") {
							j := i + 1
							for j < len(base.toks) && base.toks[j].typ == tokenizers.Whitespace {
								j++
							}
							if j < len(base.toks) && base.toks[j].val == "/" {
								for k := i; k < len(base.toks); k++ {
									endTag[k] = true
									if base.toks[k].typ == tokenizers.Symbol && strings.HasPrefix(base.toks[k].val, "}}") {
										break
									}
								}
							}
						}
					}
					// a position at any token of a tag that names the quoted variable is that tag's position
					inTagNaming := make([]bool, len(base.toks))
					for i := 0; i < len(base.toks); i++ {
						if base.toks[i].typ == tokenizers.Symbol && strings.HasPrefix(base.toks[i].val, "{{") {
							k, names := i, false
							for ; k < len(base.toks); k++ {
								if base.toks[k].typ == tokenizers.Word && quoted != "" && strings.EqualFold(base.toks[k].val, quoted) {
									names = true
								}
								if k > i && base.toks[k].typ == tokenizers.Symbol && (strings.HasPrefix(base.toks[k].val, "}}") || strings.HasPrefix(base.toks[k].val, "{{")) {
									break
								}
							}
							if names {
								for j := i; j <= k && j < len(base.toks); j++ {
									inTagNaming[j] = true
								}
							}
						}
					}
					for i := range base.toks {
						if ref[i][0] == l && ref[i][1] == col {
							found = true
							if inTagNaming[i] {
								valueOK = true
							}
							if endTag[i] {
								valueOK = true // (whatever the wording: a name quoted there may be the open section's)
								continue
							}
							if quoted == "" || base.toks[i].val == quoted || strings.EqualFold(strings.TrimSpace(base.toks[i].val), quoted) {
								valueOK = true
							}
							// the parser may quote a string literal decoded (the decoded value of an ill-formed one is open)
							if base.toks[i].typ == tokenizers.Quoted {
								if d := refDecode(kind, base.toks[i].val); d == quoted || d == unspecifiedValue {
									valueOK = true
								}
							}
						}
					}
					c.Eval(1)
					if !found {
						c.Violation("error-position-not-at-a-token:mustache", "template %q: error %s %q quotes (%d,%d), which is not the position of any token %s", text, ae.Code, ae.Message, l, col, tokStr(base.toks))
					} else if !valueOK {
						c.Violation("error-position-at-another-token:mustache", "template %q: error %s %q quotes (%d,%d), but no token at that position has the quoted value %q; tokens %s", text, ae.Code, ae.Message, l, col, quoted, tokStr(base.toks))
					}
				}
			}
		}
	}
	// secondary: positions quoted in syntax errors point at a token
	if kind == "expression" && text == strings.Trim(text, " \t\r\n") && text != "" {
		p := parsers.NewExpressionParser()
		var err error
		if pv := fw.Try(func() { err = p.ParseString(text) }); pv == nil && err != nil {
			if ae, ok := err.(*cerr.ApplicationError); ok {
				if m := c12PosRe.FindStringSubmatch(ae.Message); m != nil {
					l, _ := strconv.Atoi(m[1])
					col, _ := strconv.Atoi(m[2])
					found := false
					for i := range base.toks {
						if ref[i][0] == l && ref[i][1] == col && base.toks[i].typ != tokenizers.Whitespace && base.toks[i].typ != tokenizers.Comment {
							found = true
						}
					}
					c.Eval(1)
					if !found {
						c.Violation("error-position-not-at-a-token", "expression %q: error %s %q quotes (%d,%d), which is not the position of any token %s", text, ae.Code, ae.Message, l, col, tokStr(base.toks))
					}
					// the part of the input the reference recogniser consumes is a valid beginning of a
					// sentence: the offending token cannot lie inside it, so neither can the quoted position
					{
						byText := map[string]vtok{}
						for _, v := range exprVocab {
							byText[v.text] = v
						}
						vt, at := []vtok{}, []int{}
						for i, t := range base.toks {
							switch t.typ {
							case tokenizers.Whitespace, tokenizers.Comment, tokenizers.Eof:
								continue
							case tokenizers.Integer, tokenizers.Float, tokenizers.Quoted, tokenizers.Number, tokenizers.HexDecimal:
								vt = append(vt, vtok{t.val, "CONST", nil})
							case tokenizers.Word:
								vt = append(vt, vtok{t.val, "IDENT", nil})
							default:
								if v, ok := byText[strings.ToUpper(t.val)]; ok && v.kind != "IDENT" {
									vt = append(vt, vtok{t.val, v.kind, nil})
								} else {
									vt = append(vt, vtok{t.val, "UNKNOWN", nil})
								}
							}
							at = append(at, i)
						}
						r := &recog{toks: vt}
						tree := r.e0()
						if !(tree != nil && r.pos == len(vt)) {
							lim := len(base.toks) - 1 // the end-of-input token
							if r.pos < len(at) {
								lim = at[r.pos]
							}
							if lim >= 0 && base.toks[lim].typ != tokenizers.Eof || (lim >= 0 && lim == len(base.toks)-1) {
								ll, lc := ref[lim][0], ref[lim][1]
								if l < ll || (l == ll && col < lc) {
									c.Violation("error-position-inside-the-valid-prefix", "expression %q: error %s quotes (%d,%d); the input up to (%d,%d) (token %q) is a valid beginning of an expression, so the offending token is not before that", text, ae.Code, l, col, ll, lc, base.toks[lim].val)
								}
							}
						}
					}
					// UNKNOWN_SYMBOL: the offending token is the first token that is neither an operator,
					// bracket, comma, word, keyword, number nor string; the quoted position must be exactly its position
					if ae.Code == "UNKNOWN_SYMBOL" {
						for i, t := range base.toks {
							bad := t.typ == tokenizers.Unknown || (t.typ == tokenizers.Symbol && !c12Operators[strings.ToUpper(t.val)]) || (t.typ == tokenizers.Word && refDecode("expression", t.val) == "" && strings.HasPrefix(t.val, "\""))
							if bad {
								if ref[i][0] != l || ref[i][1] != col {
									c.Violation("unknown-symbol-position", "expression %q: UNKNOWN_SYMBOL quotes (%d,%d) but the offending token %s is at (%d,%d)", text, l, col, fmt.Sprintf("%q", t.val), ref[i][0], ref[i][1])
								}
								break
							}
						}
					}
				}
			}
		}
	}
}

func c12Classify(kind string, o int, base []tokRec, idx []int, k int, t tokRec) string {
	skippedBefore := false
	prev := -1
	if k > 0 {
		prev = idx[k-1]
	}
	if idx[k]-prev > 1 {
		skippedBefore = true
	}
	recreated := t.typ == tokenizers.Eof || t.typ == tokenizers.Unknown || t.typ == tokenizers.Number || (t.typ == tokenizers.Whitespace && o&optMerge != 0) || (o&optDecode != 0 && fromQuoteState(kind, base[idx[k]]))
	switch {
	case skippedBefore && recreated:
		return "recreated-token-after-skipped-tokens:" + kind
	case skippedBefore:
		return "token-after-skipped-tokens:" + kind
	case t.typ == tokenizers.Eof:
		return "eof-position:" + kind
	case o == 0:
		return "position-option-free:" + kind + ":" + tokTypeName(t.typ)
	}
	return "position-under-options:" + kind + ":" + tokTypeName(t.typ)
}

// template pieces for the parser's error positions: openers and closers of sections (some closers with a
// line break inside the tag), variables, text, a lone opener and closer
var c12TemplatePieces = []string{"{{#a}}", "{{^b}}", "{{/a}}", "{{/b}}", "{{/c\n}}", "{{/\r\nc}}", "{{ /if }}", "{{x}}", "{{{y}}}", "t", "\n", "{{", "}}", "{{!c}}", "{{#if a\n}}"}

func c12OptSets(tier string) []int {
	if tier == "thorough" {
		all := []int{}
		for o := 0; o < 128; o++ {
			all = append(all, o)
		}
		return all
	}
	parser := optSkipWhitespaces | optSkipComments | optSkipEof | optDecode
	sets := []int{0}
	for i := 0; i < 7; i++ {
		sets = append(sets, 1<<i)
	}
	return append(sets, parser, 127, optSkipUnknown|optSkipComments|optSkipWhitespaces)
}

func init() {
	fw.Register(&fw.Check{
		ID:    "C12",
		Level: "model_checking",
		Rule: "Also: the generic and the expression tokenizer configured with symbols of the user's own (one with an unregistered prefix, some starting with the sign) and a whitespace character the dispatch table does not start a whitespace on, every string up to length 4..6 over an 11-character alphabet. (also: 183 boundary characters (aliases modulo 2^8 and 2^16 and up to four characters of every Unicode general category among them) in every short context and every pattern of <=2 characters repeated up to 1000 times, three (thorough five) patterns repeated 65535..65537 times) 4 tokenizers x every string up to the length bound over an alphabet with LF, CR, a quote, a comment opener, a multi-character symbol and an unknown character x option sets (quick: none, each single option, the parser's set, two combinations, all on; thorough: all 128); " +
			"oracle: token k of the option-free stream sits at the forward-scan coordinates (independent rule model, cross-checked with a fresh real scanner) of offset sum(len(values before)); tokens under options are aligned with their originals through the C15 transformer and must carry the same position; Eof one column past the last character; " +
			"positions quoted in expression syntax errors (short strings, and every sequence of <=4 (thorough 5) grammar tokens written on one line and one token per line) must be the position of a token that does not lie inside the part of the input a reference recogniser consumes as a valid beginning of an expression, and for UNKNOWN_SYMBOL exactly the position of the first offending token; with the exported keyword list extended by words holding two-byte letters, every string of <=4 (thorough 5) characters over 8; positions quoted by the mustache parser (short strings, and every sequence of <=4 (thorough 5) template pieces incl. section closers with a line break inside the tag) must be the position of a token, with the quoted symbol or variable as its value, and for a rejected section end a token of a closing tag; non-trivial = (multi-line input, option set) with >=3 tokens",
		Assume: []string{"C04 and C15 hold for the (input, option set) (otherwise skipped and counted)", "coordinates as defined by C11's forward scan"},
		Spaces: func(tier string) []fw.Space {
			lens := map[string]int{"generic": 4, "expression": 4, "csv": 5, "mustache": 4, "csv+latin1": 4, "csv+wide": 4}
			if tier == "thorough" {
				lens = map[string]int{"generic": 5, "expression": 5, "csv": 6, "mustache": 5, "csv+latin1": 5, "csv+wide": 5}
			}
			sets := c12OptSets(tier)
			sp := []fw.Space{}
			for _, kind := range tokKindsExt {
				kind := kind
				al := c12Alphabets[kind]
				sp = append(sp, fw.Space{Name: kind, N: countStrings(len(al), lens[kind]),
					Run:  func(c *fw.Ctx, i int64) { c12Run(c, kind, stringByIndex(al, i), sets) },
					Repr: func(i int64) string { return fmt.Sprintf("%s tokenizer, input %q, %d option sets", kind, stringByIndex(al, i), len(sets)) }})
			}
			for _, kind := range tokKindsCustom {
				kind := kind
				cl := 4
				if tier == "thorough" {
					cl = 5
				}
				sp = append(sp, fw.Space{Name: kind, N: countStrings(len(customAlphabet), cl),
					Run:  func(c *fw.Ctx, i int64) { c12Run(c, kind, stringByIndex(customAlphabet, i), sets) },
					Repr: func(i int64) string { return fmt.Sprintf("%s tokenizer, input %q, %d option sets", kind, stringByIndex(customAlphabet, i), len(sets)) }})
			}
			// the exported keyword list extended by the user with words that hold two-byte letters
			kwAlpha := []rune("oO\u00f9\u00d9 \n1(")
			kwLen := 4
			if tier == "thorough" {
				kwLen = 5
			}
			sp = append(sp, fw.Space{Name: "extended-keyword-list", N: countStrings(len(kwAlpha), kwLen),
				Run: func(c *fw.Ctx, i int64) {
					saved := c12tok.Keywords
					c12tok.Keywords = append(append([]string{}, saved...), "O\u00d9", "\u00d9O\u00d9")
					defer func() { c12tok.Keywords = saved }()
					c12Run(c, "expression+custom", stringByIndex(kwAlpha, i), sets)
				},
				Repr: func(i int64) string {
					return fmt.Sprintf("expression tokenizer with O\u00d9 and \u00d9O\u00d9 appended to the exported keyword list, input %q, %d option sets", stringByIndex(kwAlpha, i), len(sets))
				}})
			ctxN := 1
			counts := pumpCountsSmall
			if tier == "thorough" {
				ctxN = 2
				counts = pumpCounts
			}
			for _, kind := range tokKinds {
				kind := kind
				ca := tokContextAlphabets[kind]
				nctx := contextsCount(ca, ctxN)
				sp = append(sp, fw.Space{Name: "charsweep-" + kind, N: nctx * int64(len(boundaryChars)),
					Run: func(c *fw.Ctx, i int64) {
						pre, suf := contextByIndex(ca, ctxN, i%nctx)
						c12Run(c, kind, pre+string(boundaryChars[i/nctx])+suf, sets)
					},
					Repr: func(i int64) string {
						pre, suf := contextByIndex(ca, ctxN, i%nctx)
						return fmt.Sprintf("%s tokenizer, input %q, %d option sets", kind, pre+string(boundaryChars[i/nctx])+suf, len(sets))
					}})
				npat := countStrings(len(ca), 2) - 1
				sp = append(sp, fw.Space{Name: "pumped-" + kind, N: npat * int64(len(counts)),
					Run: func(c *fw.Ctx, i int64) {
						c12Run(c, kind, pumped(stringByIndex(ca, 1+i%npat), counts[i/npat]), sets)
					},
					Repr: func(i int64) string {
						return fmt.Sprintf("%s tokenizer, input %q repeated %d times, %d option sets", kind, stringByIndex(ca, 1+i%npat), counts[i/npat], len(sets))
					}})
			}
			// lines and columns beyond 2^16: a few patterns repeated 65535..65537 times, option-free and parser options
			for _, kind := range tokKinds {
				kind := kind
				// (stepping back over a line break makes the scanner rescan from the start, so inputs with
				// 65537 lines of tokens cost minutes: thorough tier only)
				pats := []string{"a", "a ", "\r\n"}
				if tier == "thorough" {
					pats = append(pats, "a\n", "1,")
				}
				sp = append(sp, fw.Space{Name: "huge-" + kind, N: int64(len(pats) * len(hugeCounts)), Timeout: 300e9,
					Run: func(c *fw.Ctx, i int64) {
						c12Run(c, kind, pumped(pats[int(i)%len(pats)], hugeCounts[int(i)/len(pats)])+"<=x", []int{0, optSkipWhitespaces | optSkipComments | optSkipEof | optDecode})
					},
					Repr: func(i int64) string {
						return fmt.Sprintf("%s tokenizer, input %q repeated %d times then \"<=x\"", kind, pats[int(i)%len(pats)], hugeCounts[int(i)/len(pats)])
					}})
			}
			// positions quoted by the template parser: every sequence of template pieces, line breaks inside tags included
			tl := 4
			if tier == "thorough" {
				tl = 5
			}
			sp = append(sp, fw.Space{Name: "template-error-positions", N: countStrings(len(c12TemplatePieces), tl) - 1,
				Run: func(c *fw.Ctx, i int64) {
					c12Run(c, "mustache", strings.Join(lexemesByIndex(c12TemplatePieces, 1+i), ""), []int{0})
				},
				Repr: func(i int64) string {
					return fmt.Sprintf("template %q: position quoted in the parser's error", strings.Join(lexemesByIndex(c12TemplatePieces, 1+i), ""))
				}})
			// positions quoted in syntax errors: every sequence of grammar tokens, on one line and one token per line
			seqLen := 4
			if tier == "thorough" {
				seqLen = 5
			}
			nseq := countStrings(len(exprVocabSmall), seqLen) - 1
			layout := func(i int64) string {
				parts := []string{}
				for _, k := range seqByIndex(len(exprVocabSmall), 1+i/2) {
					parts = append(parts, exprVocabSmall[k].text)
				}
				if i%2 == 0 {
					return strings.Join(parts, " ")
				}
				return strings.Join(parts, "\n  ")
			}
			sp = append(sp, fw.Space{Name: "syntax-error-positions", N: nseq * 2,
				Run:  func(c *fw.Ctx, i int64) { c12Run(c, "expression", layout(i), []int{0}) },
				Repr: func(i int64) string { return fmt.Sprintf("expression %q: position quoted in the syntax error", layout(i)) }})
			// change-directed: quoted strings and quoted identifiers ending in a literal that is new in the working tree
			if na := newAtoms(4); len(na) > 0 {
				vocab := []string{}
				for _, v := range exprVocabSmall {
					vocab = append(vocab, v.text)
				}
				for _, a := range na {
					vocab = append(vocab, "'x"+strings.ReplaceAll(a, "'", "''")+"'", "\"x"+strings.ReplaceAll(a, "\"", "\"\"")+"\"")
				}
				nv := countStrings(len(vocab), 3) - 1
				lay := func(i int64) string {
					if i%2 == 0 {
						return strings.Join(lexemesByIndex(vocab, 1+i/2), " ")
					}
					return strings.Join(lexemesByIndex(vocab, 1+i/2), "\n  ")
				}
				sp = append(sp, fw.Space{Name: "syntax-error-positions-new-literals", N: nv * 2,
					Run:  func(c *fw.Ctx, i int64) { c12Run(c, "expression", lay(i), []int{0}) },
					Repr: func(i int64) string { return fmt.Sprintf("expression %q: position quoted in the syntax error (tokens incl. literals new in the working tree: %q)", lay(i), na) }})
			}
			return sp
		},
		Bounds: func(tier string) string {
			if tier == "thorough" {
				return "strings len<=5 (csv len<=6) x all 128 option sets"
			}
			return "strings len<=4 (csv len<=5) x 11 option sets"
		},
	})
}
