#!/bin/bash
# usage: try_patch.sh <patch-file | revert:<commit>> <tier> <check-id>...
# Applies a change to a scratch worktree of /repo (outside /repo and /verif), runs the
# repository's own tests there, then runs the given checks against it. Evidence and
# replays go to a scratch directory. Everything is removed afterwards.
set -u
PATCH=$1; TIER=$2; shift 2
WT=$(mktemp -d /tmp/wt-XXXXXX); OUT=$(mktemp -d /tmp/out-XXXXXX)
rmdir "$WT"
git -C /repo worktree add -q --detach "$WT" HEAD || exit 2
cleanup() { git -C /repo worktree remove --force "$WT" 2>/dev/null; rm -rf "$WT" "$OUT"; git -C /repo worktree prune; }
trap cleanup EXIT
case "$PATCH" in
  revert:*) git -C "$WT" revert --no-commit "${PATCH#revert:}" >/dev/null || { echo "revert failed"; exit 2; } ;;
  *) git -C "$WT" apply "$PATCH" || { echo "patch does not apply"; exit 2; } ;;
esac
if [ "${SKIP_TESTS:-0}" != 1 ]; then
  echo -n "repo tests with change: "; /verif/tools/repo_tests.sh "$WT" | tail -1
fi
rc_all=0
for id in "$@"; do
  VERIF_REPO="$WT" VERIF_OUT="$OUT" VERIF_GOCACHE=/verif/.gocache /verif/run_check.sh "$id" "$TIER" > "$OUT/log.$id" 2>&1
  rc=$?
  nv=$(grep -c '^VIOLATION' "$OUT/log.$id")
  echo "check $id $TIER: exit=$rc violations=$nv"
  grep -A2 "^  \[$id\]" "$OUT/log.$id" | head -${SHOW:-6}
  [ $rc -eq 1 ] || rc_all=1
done
exit $rc_all
