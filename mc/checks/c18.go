package checks

import (
	ctok18 "github.com/pip-services3-gox/pip-services3-expressions-gox/calculator/tokenizers"
	"fmt"
	"strings"

	"verifmc/fw"

	cerr "github.com/pip-services3-gox/pip-services3-commons-gox/errors"
	"github.com/pip-services3-gox/pip-services3-expressions-gox/calculator"
	"github.com/pip-services3-gox/pip-services3-expressions-gox/calculator/functions"
	"github.com/pip-services3-gox/pip-services3-expressions-gox/calculator/parsers"
	"github.com/pip-services3-gox/pip-services3-expressions-gox/calculator/variables"
	"github.com/pip-services3-gox/pip-services3-expressions-gox/mustache"
	mparsers "github.com/pip-services3-gox/pip-services3-expressions-gox/mustache/parsers"
	"github.com/pip-services3-gox/pip-services3-expressions-gox/variants"
)

// C18 — variables are discovered exactly and names resolve case-insensitively.

// the last two: quoted identifiers that spell a constant / an operator word are still identifiers (round M)
var c18Idents = []string{"a", "A", "b", "\"a b\"", "Max", "\"Max\"", "if", "\"true\"", "\"in\""}

// expression trees with identifiers in every syntactic position
func c18Trees() []*enode {
	out := []*enode{}
	str := func(s string) *enode { return eConst("'"+s+"'", s) }
	for _, x := range c18Idents {
		out = append(out, eVar(x), eNeg(eVar(x)), eNot(eVar(x)), ePost("IS NULL", eVar(x)), eCall("Max", eVar(x), eConst("1", 1)), eIdx(eVar(x), eConst("1", 1)),
			eBin("+", eVar(x), str(unquoteIdent(x))), eBin("=", str(unquoteIdent(x)), eConst("1", 1)), eCall(x, eConst("1", 1), eConst("2", 2)))
		for _, y := range c18Idents {
			out = append(out, eBin("+", eVar(x), eVar(y)), eBin("AND", eVar(x), eNot(eVar(y))), eCall("Min", eVar(x), eVar(y)), eIdx(eVar(x), eVar(y)),
				eBin("NOT IN", eVar(x), eVar(y)), eBin("*", eCall(x, eVar(y)), eVar(x)), eCall(y, eCall(x, eVar(y), str("b")), eVar("b")))
			for _, z := range c18Idents {
				out = append(out, eBin("+", eBin("*", eVar(x), eVar(y)), eVar(z)), eCall("If", eVar(x), eVar(y), eVar(z)), eBin("OR", ePost("IS NOT NULL", eVar(x)), eBin("<", eVar(y), eVar(z))))
			}
		}
	}
	// width pumps: k DISTINCT identifiers in one expression, the first one occurring again at the end in
	// another letter case; identifiers of k characters occurring twice
	for _, k := range widthCounts {
		names := distinctNames(k, 0)
		out = append(out, wideSum(append(append([]string{}, names...), strings.ToUpper(names[0]), names[k/2])))
		long := strings.Repeat("n", k-1)
		out = append(out, eBin("+", eBin("*", eVar(long+"x"), eVar(long+"y")), eBin("-", eVar(long+"x"), eVar(strings.ToUpper(long)+"Y"))))
	}
	return out
}

func varLeavesInOrder(n *enode, out *[]string) {
	if n.kind == "var" {
		*out = append(*out, unquoteIdent(n.name))
		return
	}
	for _, k := range n.kids {
		varLeavesInOrder(k, out)
	}
}

func firstOccurrencesFold(names []string) []string {
	out := []string{}
	seen := map[string]bool{}
	for _, n := range names {
		k := strings.ToUpper(n)
		if !seen[k] {
			seen[k] = true
			out = append(out, k)
		}
	}
	return out
}

func checkNames(reported []string, leaves []string) string {
	// exact duplicates
	ex := map[string]bool{}
	isLeaf := map[string]bool{}
	for _, l := range leaves {
		isLeaf[l] = true
	}
	for _, r := range reported {
		if ex[r] {
			return fmt.Sprintf("name %q reported twice", r)
		}
		ex[r] = true
		if !isLeaf[r] {
			return fmt.Sprintf("reported name %q does not occur in variable position", r)
		}
	}
	got := firstOccurrencesFold(reported)
	want := firstOccurrencesFold(leaves)
	if strings.Join(got, "\x00") != strings.Join(want, "\x00") {
		return fmt.Sprintf("names %q, variables in order of first occurrence are %q", reported, leaves)
	}
	return ""
}

var c18Prepop = [][][2]interface{}{
	{},
	{{"a", 1}},
	{{"A", 1}, {"b", 2}},
}

func c18Expr(c *fw.Ctx, tree *enode, si int) {
	text := tree.print(c01Styles[si%len(c01Styles)])
	leaves := []string{}
	varLeavesInOrder(tree, &leaves)
	p := parsers.NewExpressionParser()
	var err error
	if pv := fw.Try(func() { err = p.ParseString(text) }); pv != nil || err != nil {
		c.Violation("discovery-sentence-rejected", "ParseString(%q) fails: %v %v", text, err, pv)
		return
	}
	c.Eval(1)
	if msg := checkNames(p.VariableNames(), leaves); msg != "" {
		c.Violation("expression-variable-names", "%q: %s", text, msg)
	}
	if len(leaves) >= 2 {
		c.Nontrivial()
	}
	c.Outcome(fmt.Sprintf("vars=%d", len(firstOccurrencesFold(leaves))))
	// automatic variables with pre-populated defaults
	// mode 0: the calculator's own default collection filled by SetExpression;
	// mode 1: automatic variables off, a caller's collection filled through the CreateVariables entry point
	for pim, pre := range append(append([][][2]interface{}{}, c18Prepop...), c18Prepop...) {
		pi, viaCreate := pim%len(c18Prepop), pim >= len(c18Prepop)
		calc := calculator.NewExpressionCalculator()
		calc.SetAutoVariables(true) // (the statement is conditional on it; which way a new object starts is not pinned)
		var target variables.IVariableCollection = calc.DefaultVariables()
		if viaCreate {
			calc.SetAutoVariables(false)
			target = variables.NewVariableCollection()
		}
		type ent struct {
			name string
			v    variables.IVariable
			val  *variants.Variant
		}
		before := []ent{}
		for _, e := range pre {
			val := variants.VariantFromInteger(e[1].(int))
			v := variables.NewVariable(e[0].(string), val)
			target.Add(v)
			before = append(before, ent{e[0].(string), v, val})
		}
		var err error
		if pv := fw.Try(func() { err = calc.SetExpression(text) }); pv != nil || err != nil {
			c.Violation("discovery-sentence-rejected", "SetExpression(%q) fails: %v %v", text, err, pv)
			return
		}
		c.Eval(1)
		dv := target
		if viaCreate {
			if pv := fw.Try(func() { calc.CreateVariables(target) }); pv != nil {
				c.Violation("create-variables-panics", "%q: CreateVariables on a caller's collection panics: %s", text, panicShort(pv))
				continue
			}
			if calc.DefaultVariables().Length() != 0 {
				c.Violation("auto-variables-off-still-creates", "%q: SetAutoVariables(false) + CreateVariables(caller's collection) put %d entries into the default collection", text, calc.DefaultVariables().Length())
			}
		}
		// earlier entries and values untouched, in place
		for i, b := range before {
			if dv.Length() <= i || dv.Get(i) != b.v || b.v.Value() != b.val {
				c.Violation("auto-variables-disturb-existing-entries", "%q with defaults #%d: entry %d (%s) was moved or changed", text, pi, i, b.name)
			}
		}
		// exactly one entry per name up to case
		count := map[string]int{}
		for _, v := range dv.GetAll() {
			count[strings.ToUpper(v.Name())]++
		}
		want := map[string]bool{}
		for _, b := range before {
			want[strings.ToUpper(b.name)] = true
		}
		for _, l := range leaves {
			want[strings.ToUpper(l)] = true
		}
		for k := range want {
			if count[k] != 1 {
				c.Violation("auto-variables-entry-count", "%q with defaults #%d: %d entries for name %q (one expected); collection %v", text, pi, count[k], k, c18Names(dv))
			}
		}
		for k := range count {
			if !want[k] {
				c.Violation("auto-variables-spurious-entry", "%q with defaults #%d: entry %q is neither a variable of the expression nor pre-existing", text, pi, k)
			}
		}
	}
	// a function that is missing from an explicitly supplied collection is an error naming it,
	// even when the calculator's own default table knows a function of that name
	{
		calc := calculator.NewExpressionCalculator()
		if err := calc.SetExpression(text); err == nil {
			calls := []string{}
			var walk func(n *enode)
			walk = func(n *enode) {
				for _, k := range n.kids {
					walk(k)
				}
				if n.kind == "call" {
					calls = append(calls, unquoteIdent(n.name))
				}
			}
			walk(tree)
			if len(calls) > 0 {
				vars := variables.NewVariableCollection()
				for _, l := range leaves {
					if vars.FindByName(l) == nil {
						vars.Add(variables.NewVariable(l, variants.VariantFromInteger(1)))
					}
				}
				var r *variants.Variant
				var eerr error
				pv := fw.Try(func() { r, eerr = calc.EvaluateUsingVariablesAndFunctions(vars, functions.NewFunctionCollection()) })
				c.Eval(1)
				ae, _ := eerr.(*cerr.ApplicationError)
				if pv == nil && (eerr == nil || ae == nil || ae.Code != "FUNC_NOT_FOUND") {
					c.Violation("missing-function-not-reported", "%q evaluated with an EMPTY function collection: result %s, error %v (FUNC_NOT_FOUND expected; calls %v)", text, variantStr(r), eerr, calls)
				}
			}
		}
	}
	// automatic variables off: a missing variable / function is an error naming it
	{
		calc := calculator.NewExpressionCalculator()
		calc.SetAutoVariables(false)
		if err := calc.SetExpression(text); err == nil {
			if calc.DefaultVariables().Length() != 0 {
				c.Violation("auto-variables-off-still-creates", "%q: SetAutoVariables(false) but %d default variables were created", text, calc.DefaultVariables().Length())
			}
			var r *variants.Variant
			var eerr error
			pv := fw.Try(func() { r, eerr = calc.Evaluate() })
			c.Eval(1)
			if len(leaves) > 0 && pv == nil {
				// the first thing evaluated that is missing decides: a variable or a function
				ae, _ := eerr.(*cerr.ApplicationError)
				if eerr == nil || ae == nil || (ae.Code != "VAR_NOT_FOUND" && ae.Code != "FUNC_NOT_FOUND") {
					c.Violation("missing-variable-not-reported", "%q without variables: result %s, error %v (VAR_NOT_FOUND / FUNC_NOT_FOUND expected)", text, variantStr(r), eerr)
				} else {
					named := false
					cands := append([]string{}, leaves...)
					for _, id := range c18Idents {
						cands = append(cands, unquoteIdent(id))
					}
					for _, l := range cands {
						// the name as a whole word, whatever punctuation the message puts around it
						if i := strings.Index(ae.Message, l); i >= 0 {
							isWord := func(r byte) bool { return r == '_' || r >= '0' && r <= '9' || r >= 'A' && r <= 'Z' || r >= 'a' && r <= 'z' || r >= 0x80 }
							for ; i >= 0; i = indexFrom(ae.Message, l, i+1) {
								before := i == 0 || !isWord(ae.Message[i-1])
								after := i+len(l) == len(ae.Message) || !isWord(ae.Message[i+len(l)])
								if before && after {
									named = true
									break
								}
							}
						}
					}
					if !named {
						c.Violation("missing-name-not-in-message", "%q: error %q does not name the missing variable/function", text, ae.Message)
					}
				}
			}
		}
	}
}

func indexFrom(s, sub string, from int) int {
	if from >= len(s) {
		return -1
	}
	if i := strings.Index(s[from:], sub); i >= 0 {
		return from + i
	}
	return -1
}

func c18Names(vc variables.IVariableCollection) []string {
	out := []string{}
	for _, v := range vc.GetAll() {
		out = append(out, v.Name())
	}
	return out
}

// ---- mustache templates

type c18Piece struct {
	text  string
	names []string // variable names it mentions, in order
}

var c18Pieces = []c18Piece{
	{"x", nil}, {"if unless ", nil}, {"{{a}}", []string{"a"}}, {"{{{B}}}", []string{"B"}}, {"{{A}}", []string{"A"}},
	{"{{#a}}y{{/a}}", []string{"a"}}, {"{{#if b}}y{{/if}}", []string{"b"}}, {"{{^B}}y{{/B}}", []string{"B"}}, {"{{#unless c}}{{a}}{{/unless}}", []string{"c", "a"}},
	{"{{#b}}{{#if A}}{{c}}{{/if}}{{/b}}", []string{"b", "A", "c"}}, {"{{ name }}", []string{"name"}},
}

func c18Template(c *fw.Ctx, seq []int) {
	var sb strings.Builder
	names := []string{}
	for _, k := range seq {
		sb.WriteString(c18Pieces[k].text)
		names = append(names, c18Pieces[k].names...)
	}
	text := sb.String()
	p := mparsers.NewMustacheParser()
	var err error
	if pv := fw.Try(func() { err = p.ParseString(text) }); pv != nil || err != nil {
		c.Violation("template-rejected", "template %q fails: %v %v", text, err, pv)
		return
	}
	c.Eval(1)
	if msg := checkNames(p.VariableNames(), names); msg != "" {
		c.Violation("template-variable-names", "template %q: %s", text, msg)
	}
	if len(names) >= 2 {
		c.Nontrivial()
	}
	// auto variables: one entry per name (case-insensitively), existing entries kept
	t := mustache.NewMustacheTemplate()
	t.SetAutoVariables(true)
	t.SetDefaultVariables(map[string]string{"A": "keep"})
	if err := t.SetTemplate(text); err != nil {
		c.Violation("template-rejected", "SetTemplate(%q) fails: %v", text, err)
		return
	}
	count := map[string]int{}
	for k := range t.DefaultVariables() {
		count[strings.ToUpper(k)]++
	}
	want := map[string]bool{"A": true}
	for _, n := range names {
		want[strings.ToUpper(n)] = true
	}
	for k := range want {
		if count[k] != 1 {
			c.Violation("template-auto-variables-entry-count", "template %q: %d default entries for %q; map %v", text, count[k], k, t.DefaultVariables())
		}
	}
	for k := range count {
		if !want[k] {
			c.Violation("template-auto-variables-spurious-entry", "template %q: default entry %q is not a variable of the template", text, k)
		}
	}
	if t.DefaultVariables()["A"] != "keep" {
		c.Violation("template-auto-variables-disturb-existing", "template %q: pre-existing default A was changed to %q", text, t.DefaultVariables()["A"])
	}
	// the CreateVariables entry point on a caller's map, automatic variables off
	{
		t3 := mustache.NewMustacheTemplate()
		t3.SetAutoVariables(false)
		if err := t3.SetTemplate(text); err == nil {
			if len(t3.DefaultVariables()) != 0 {
				c.Violation("template-auto-variables-off-still-creates", "template %q: SetAutoVariables(false) but defaults are %v", text, t3.DefaultVariables())
			}
			m := map[string]string{"A": "keep"}
			if pv := fw.Try(func() { t3.CreateVariables(&m) }); pv != nil {
				c.Violation("create-variables-panics", "template %q: CreateVariables on a caller's map panics: %s", text, panicShort(pv))
			} else {
				cnt := map[string]int{}
				for k := range m {
					cnt[strings.ToUpper(k)]++
				}
				for k := range want {
					if cnt[k] != 1 {
						c.Violation("template-auto-variables-entry-count", "template %q: CreateVariables(caller's map {A:keep}) leaves %d entries for %q; map %v", text, cnt[k], k, m)
					}
				}
				for k := range cnt {
					if !want[k] {
						c.Violation("template-auto-variables-spurious-entry", "template %q: CreateVariables added %q, which is not a variable of the template", text, k)
					}
				}
				if m["A"] != "keep" {
					c.Violation("template-auto-variables-disturb-existing", "template %q: CreateVariables changed the caller's entry A to %q", text, m["A"])
				}
			}
		}
	}
	// pre-existing entries with EMPTY values, and the same template set again on the same instance
	// in another letter case: still exactly one entry per name
	t2 := mustache.NewMustacheTemplate()
	t2.SetAutoVariables(true)
	t2.SetDefaultVariables(map[string]string{"A": "", "NAME": ""})
	for round, tx := range []string{text, strings.ToUpper(text), text} {
		if strings.Contains(tx, "{{#IF ") || strings.Contains(tx, "{{#UNLESS ") || strings.Contains(tx, "{{/IF}}") || strings.Contains(tx, "{{/UNLESS}}") {
			break // the section words are only recognised in lower case
		}
		if err := t2.SetTemplate(tx); err != nil {
			break
		}
		cnt := map[string]int{}
		for k := range t2.DefaultVariables() {
			cnt[strings.ToUpper(k)]++
		}
		for k, n := range cnt {
			if n != 1 {
				c.Violation("template-auto-variables-entry-count", "template %q (round %d on one instance, defaults started as {A:\"\",NAME:\"\"}): %d default entries for %q; map %v", tx, round, n, k, t2.DefaultVariables())
			}
		}
	}
}

// ---- wide collections: k entries with distinct names plus pairs of names that differ only in letter
// case at several positions; every lookup must find the FIRST matching entry, through the collection
// and through an evaluation

func c18Wide(c *fw.Ctx, k int, layout int, isFunc bool) {
	if k < 2 {
		k = 2 // (sizes next to small new integer literals)
	}
	names := distinctNames(k, 0)
	// positions of the case-variant pair (lower first / upper first), by layout
	pairs := [][2]int{{0, 1}, {0, k}, {k / 2, k/2 + 1}, {k - 1, k}, {1, 0}}[layout%5]
	order := []string{}
	for i := 0; i <= k; i++ {
		switch i {
		case pairs[0]:
			order = append(order, "dup")
		case pairs[1]:
			order = append(order, "DUP")
		}
		if i < k {
			order = append(order, names[i])
		}
	}
	if layout%5 == 4 {
		order[0], order[1] = "DUP", "dup"
	}
	vc := variables.NewVariableCollection()
	fc := functions.NewFunctionCollection()
	first := map[string]int{}
	for i, n := range order {
		i := i
		if isFunc {
			fc.Add(functions.NewDelegatedFunction(n, func([]*variants.Variant, variants.IVariantOperations) (*variants.Variant, error) {
				return variants.VariantFromInteger(i + 1), nil
			}))
		} else {
			vc.Add(variables.NewVariable(n, variants.VariantFromInteger(i+1)))
		}
		if _, ok := first[strings.ToUpper(n)]; !ok {
			first[strings.ToUpper(n)] = i
		}
	}
	kind := "VariableCollection"
	if isFunc {
		kind = "FunctionCollection"
	}
	few := names
	if len(few) > 3 {
		few = few[:3]
	}
	for _, q := range append([]string{"dup", "DUP", "Dup", strings.ToUpper(names[0]), names[k-1], names[k/2], "nosuch"}, few...) {
		want, ok := first[strings.ToUpper(q)]
		if !ok {
			want = -1
		}
		var gi int
		pv := fw.Try(func() {
			if isFunc {
				gi = fc.FindIndexByName(q)
				if f := fc.FindByName(q); (f == nil) != (want < 0) || (f != nil && f != fc.Get(want)) {
					gi = -2
				}
			} else {
				gi = vc.FindIndexByName(q)
				if v := vc.FindByName(q); (v == nil) != (want < 0) || (v != nil && v != vc.Get(want)) {
					gi = -2
				}
			}
		})
		c.Eval(1)
		if pv != nil || gi != want {
			c.Violation("wide-collection-first-match", "%s with %d entries (names differing only in letter case at positions %v): lookup of %q finds index %d (-2: FindByName disagrees), the first matching entry is %d (panic %v)", kind, len(order), pairs, q, gi, want, pv)
			return
		}
	}
	// through an evaluation
	calc := calculator.NewExpressionCalculator()
	expr := "dup * 1000 + DUP"
	if isFunc {
		expr = "dup() * 1000 + DUP()"
	}
	if err := calc.SetExpression(expr); err == nil {
		var r *variants.Variant
		var err error
		pv := fw.Try(func() {
			if isFunc {
				r, err = calc.EvaluateUsingVariablesAndFunctions(variables.NewVariableCollection(), fc)
			} else {
				r, err = calc.EvaluateUsingVariables(vc)
			}
		})
		w := first["DUP"] + 1
		if pv != nil || err != nil || r == nil || variantStr(r) != variantStr(variants.VariantFromInteger(w*1000+w)) {
			c.Violation("wide-collection-first-match", "%s with %d entries: %q = %s (error %v, panic %v); both spellings resolve to entry %d, so %d expected", kind, len(order), expr, variantStr(r), err, pv, w-1, w*1000+w)
		}
	}
	c.Nontrivial()
}

// ---- collections against an ordered-list model

var c18Ops = []string{"Add(a)", "Add(A)", "Add(b)", "Locate(a)", "Locate(A)", "Locate(b)", "RemoveByName(a)", "RemoveByName(A)", "RemoveByName(b)", "Remove(0)", "Remove(1)", "Clear()", "ClearValues()", "Get(0).Value().SetAsInteger(n)", "Get(last).Value().SetAsInteger(n)"}

type c18Ent struct {
	name string
	id   int // 0 = null value
	obj  interface{}
}

func c18Hist(h []int, ops []string) string {
	p := []string{}
	for _, o := range h {
		p = append(p, ops[o])
	}
	return strings.Join(p, "; ")
}

// name triples for the collection histories: (a, A, b) stands for two spellings of one name and another
// name; the second triple is a case pair whose two letters have different UTF-8 widths (U+2C65 / U+023A),
// the third an accented letter, its capital and the unaccented letter (which is another name)
var c18NameSets = [][]string{{"a", "A", "b"}, {"x\u2c65", "x\u023a", "x\u2c66"}, {"\u00e9", "\u00c9", "e"}}

func c18Collections(c *fw.Ctx, h []int, isFunc bool) {
	c18CollectionsNamed(c, h, isFunc, c18NameSets[0])
}

func c18CollectionsNamed(c *fw.Ctx, h []int, isFunc bool, names []string) {
	model := []c18Ent{}
	next := 0
	vc := variables.NewVariableCollection()
	fc := functions.NewFunctionCollection()
	find := func(n string) int {
		for i, e := range model {
			if strings.EqualFold(e.name, n) {
				return i
			}
		}
		return -1
	}
	kind := "VariableCollection"
	if isFunc {
		kind = "FunctionCollection"
	}
	for step, op := range h {
		applicable := true
		pv := fw.Try(func() {
			switch {
			case op < 3:
				next++
				n := names[op]
				if isFunc {
					f := functions.NewDelegatedFunction(n, func([]*variants.Variant, variants.IVariantOperations) (*variants.Variant, error) { return nil, nil })
					fc.Add(f)
					model = append(model, c18Ent{n, next, f})
				} else {
					v := variables.NewVariable(n, variants.VariantFromInteger(next))
					vc.Add(v)
					model = append(model, c18Ent{n, next, v})
				}
			case op < 6:
				if isFunc {
					applicable = false
					return
				}
				n := names[op-3]
				got := vc.Locate(n)
				if i := find(n); i >= 0 {
					if got != model[i].obj {
						c.Violation("collection-locate", "%s after [%s]: Locate(%q) did not return the first matching entry", kind, c18Hist(h[:step], c18Ops), n)
					}
				} else {
					if got == nil || got.Name() != n || !got.Value().IsNull() {
						c.Violation("collection-locate", "%s after [%s]: Locate(%q) did not create an empty variable", kind, c18Hist(h[:step], c18Ops), n)
					}
					model = append(model, c18Ent{n, 0, got})
				}
			case op < 9:
				n := names[op-6]
				if isFunc {
					fc.RemoveByName(n)
				} else {
					vc.RemoveByName(n)
				}
				if i := find(n); i >= 0 {
					model = append(append([]c18Ent{}, model[:i]...), model[i+1:]...)
				}
			case op < 11:
				i := op - 9
				if i >= len(model) {
					applicable = false
					return
				}
				if isFunc {
					fc.Remove(i)
				} else {
					vc.Remove(i)
				}
				model = append(append([]c18Ent{}, model[:i]...), model[i+1:]...)
			case op == 11:
				if isFunc {
					fc.Clear()
				} else {
					vc.Clear()
				}
				model = nil
			case op == 12:
				if isFunc {
					applicable = false
					return
				}
				vc.ClearValues()
				for i := range model {
					model[i].id = 0
				}
			case op == 13 || op == 14:
				// the caller writes in place into the value object of one entry: only that entry changes
				if isFunc || len(model) == 0 {
					applicable = false
					return
				}
				i := 0
				if op == 14 {
					i = len(model) - 1
				}
				vc.Get(i).Value().SetAsInteger(1000 + step)
				model[i].id = 1000 + step
			}
		})
		if !applicable {
			c.Outcome("history-not-applicable")
			return
		}
		c.Eval(1)
		where := fmt.Sprintf("%s after [%s]", kind, c18Hist(h[:step+1], c18Ops))
		if pv != nil {
			c.Violation("collection-op-panics", "%s: panic %s", where, panicShort(pv))
			return
		}
		// observe
		msg := ""
		fw.Try(func() {
			var length int
			if isFunc {
				length = fc.Length()
			} else {
				length = vc.Length()
			}
			if length != len(model) {
				msg = fmt.Sprintf("Length()=%d, list model has %d entries", length, len(model))
				return
			}
			for i, e := range model {
				if isFunc {
					if fc.Get(i) != e.obj || fc.GetAll()[i] != e.obj {
						msg = fmt.Sprintf("entry %d is not %s#%d", i, e.name, e.id)
						return
					}
				} else {
					v := vc.Get(i)
					if v != e.obj || vc.GetAll()[i] != e.obj {
						msg = fmt.Sprintf("entry %d is not %s#%d", i, e.name, e.id)
						return
					}
					if (e.id == 0) != v.Value().IsNull() || (e.id != 0 && v.Value().AsInteger() != e.id) {
						msg = fmt.Sprintf("entry %d (%s) has value %s, expected #%d", i, e.name, variantStr(v.Value()), e.id)
						return
					}
				}
			}
			for _, n := range []string{"a", "A", "b", "B", "zz"} {
				wi := find(n)
				var gi int
				var gobj interface{}
				if isFunc {
					gi = fc.FindIndexByName(n)
					if f := fc.FindByName(n); f != nil {
						gobj = f
					}
				} else {
					gi = vc.FindIndexByName(n)
					if v := vc.FindByName(n); v != nil {
						gobj = v
					}
				}
				var wobj interface{}
				if wi >= 0 {
					wobj = model[wi].obj
				}
				if gi != wi || gobj != wobj {
					msg = fmt.Sprintf("FindIndexByName(%q)=%d (model %d) / FindByName mismatch", n, gi, wi)
					return
				}
			}
		})
		if msg != "" {
			c.Violation("collection-differs-from-list-model", "%s: %s", where, msg)
			return
		}
	}
	c.Count("transitions", int64(len(h)))
	c.Count("states", 1)
	if len(h) >= 2 {
		c.Nontrivial()
	}
	c.Outcome(fmt.Sprintf("%s:len=%d", kind, len(model)))
}

func init() {
	fw.Register(&fw.Check{
		ID:    "C18",
		Level: "model_checking",
		Rule: "(a) expression trees with identifiers from {a, A, b, \"a b\", Max, \"Max\", if, \"true\", \"in\"} in every syntactic position (operand, call argument, call name, index, next to equal string constants), 4 printing styles, plus sums of k distinct identifiers and identifiers of k characters for k up to 129: VariableNames() vs the variable leaves in order of first occurrence; automatic variables with three pre-populations of the default collection, and the same through the CreateVariables entry point on a caller's collection with automatic variables off; automatic variables off => VAR_NOT_FOUND/FUNC_NOT_FOUND naming the identifier; every call expression with an explicit empty function collection => FUNC_NOT_FOUND; a variable removed by a function of the expression between two reads of its name is missing (or resolves to the other letter-case entry) at the later read; " +
			"(b) every sequence of <=3 (thorough 4) template pieces (all section spellings, text containing the words if/unless): MustacheParser.VariableNames(), default-variable creation and CreateVariables on a caller's map; (c) every history up to the depth bound over 15 operations (incl. a caller writing in place into the value object of the first / last entry) on VariableCollection and FunctionCollection against an ordered-list model (first match wins, case-insensitive), and the histories one step shorter with the names replaced by a case pair of different UTF-8 widths and by an accented letter, its capital and the bare letter; non-trivial = >=2 variables / histories of >=2 steps",
		Assume: []string{"names differing only in letter case may be merged or reported separately", "Remove(i) with i out of range is not exercised"},
		Spaces: func(tier string) []fw.Space {
			trees := c18Trees()
			depth, tl := 4, 3
			if tier == "thorough" {
				depth, tl = 5, 4
			}
			k := len(c18Ops)
			np := len(c18Pieces)
			// a variable removed (by a function of the expression) between two reads of its name: the later
			// read is a missing variable, or finds the other letter-case entry that is now the first one
			missing := []*enode{
				eBin("+", eBin("+", eVar("a"), eCall("D")), eVar("a")),
				eBin("+", eBin("+", eVar("a"), eCall("D")), eVar("A")),
				eCall("F", eVar("A"), eCall("D"), eVar("a")),
				eBin("-", eVar("b"), eBin("*", eCall("D"), eVar("a"))),
			}
			return []fw.Space{
				{Name: "keyword-list-edited", N: 2, Run: func(c *fw.Ctx, i int64) {
					// parser and calculator built under the default keyword list; LIKE is then dropped from the
					// exported list: where "like + 1" is accepted, "like" is an identifier in variable position and must be discovered
					p := parsers.NewExpressionParser()
					calc := calculator.NewExpressionCalculator()
					calc.SetAutoVariables(true)
					p.ParseString("a like b")
					calc.SetExpression("a + 1")
					saved := ctok18.Keywords
					edited := []string{}
					for _, k := range saved {
						if k != "LIKE" {
							edited = append(edited, k)
						}
					}
					ctok18.Keywords = edited
					defer func() { ctok18.Keywords = saved }()
					var err error
					var names []string
					if i == 0 {
						err = p.ParseString("like + 1")
						names = p.VariableNames()
					} else {
						err = calc.SetExpression("like + 1")
						names = c18Names(calc.DefaultVariables())
					}
					c.Eval(1)
					c.Nontrivial()
					has := false
					for _, n := range names {
						if strings.EqualFold(n, "like") {
							has = true
						}
					}
					// which list is in force for an object built earlier - the one at its construction or the
					// current one - is not pinned: under the earlier list the text is rejected
					if err == nil && (!has || (i == 0 && len(names) != 1)) {
						c.Violation("identifier-not-discovered-after-keyword-list-edit", "object built before LIKE was dropped from the exported keyword list: \"like + 1\" gives error %v and variables %q; the identifier like is in variable position", err, names)
					}
				}, Repr: func(i int64) string { return "exported keyword list edited after construction, then \"like + 1\"" }},
				{Name: "removed-during-evaluation", N: int64(len(missing)), Run: func(c *fw.Ctx, i int64) { c01Run(c, missing[i], tier) },
					Repr: func(i int64) string { return fmt.Sprintf("expression %q where D() removes the variable a from the collection in use", missing[i].print(printStyle{})) }},
				{Name: "expression-discovery", N: int64(len(trees) * 4), Run: func(c *fw.Ctx, i int64) { c18Expr(c, trees[i/4], int(i%4)) },
					Repr: func(i int64) string { return fmt.Sprintf("expression %q", trees[i/4].print(c01Styles[i%4])) }},
				{Name: "template-discovery", N: countStrings(np, tl), Run: func(c *fw.Ctx, i int64) { c18Template(c, seqByIndex(np, i)) },
					Repr: func(i int64) string {
						s := ""
						for _, k := range seqByIndex(np, i) {
							s += c18Pieces[k].text
						}
						return fmt.Sprintf("template %q", s)
					}},
				{Name: "instance-independence", N: 1, Run: func(c *fw.Ctx, i int64) {
					c.Eval(1)
					c.Nontrivial()
					mkf := func(name string) functions.IFunction {
						return functions.NewDelegatedFunction(name, func([]*variants.Variant, variants.IVariantOperations) (*variants.Variant, error) {
							return variants.VariantFromString(name), nil
						})
					}
					f1, f2 := functions.NewDefaultFunctionCollection(), functions.NewDefaultFunctionCollection()
					n0 := f2.Length()
					f1.Add(mkf("OnlyInFirst"))
					f2.Add(mkf("OnlyInSecond"))
					f1.RemoveByName("Min")
					f1.Remove(0)
					f3 := functions.NewDefaultFunctionCollection()
					if f2.FindByName("OnlyInFirst") != nil || f1.FindByName("OnlyInSecond") != nil || f2.FindByName("Min") == nil || f3.FindByName("Min") == nil || f2.FindByName("Ticks") == nil ||
						f2.Length() != n0+1 || f3.Length() != n0 || f3.FindByName("OnlyInFirst") != nil || f1.FindByName("OnlyInFirst") == nil || f2.FindByName("OnlyInSecond") == nil {
						c.Violation("collections-share-state", "two default function collections are not independent: after Add/RemoveByName/Remove on the first, the second or a new one changed (lengths %d %d %d)", f1.Length(), f2.Length(), f3.Length())
					}
					c1, c2 := calculator.NewExpressionCalculator(), calculator.NewExpressionCalculator()
					c1.DefaultFunctions().Add(mkf("Own"))
					c2.DefaultFunctions().Add(mkf("Other"))
					c1.DefaultVariables().Add(variables.NewVariable("v", variants.VariantFromInteger(1)))
					for _, cc := range []*calculator.ExpressionCalculator{c1, c2} {
						cc.SetAutoVariables(false)
					}
					ok := true
					if err := c1.SetExpression("Own()"); err != nil {
						ok = false
					} else if r, err := c1.Evaluate(); err != nil || r == nil || r.Type() != variants.String || r.AsString() != "Own" {
						ok = false
					}
					if c2.DefaultFunctions().FindByName("Own") != nil || c1.DefaultFunctions().FindByName("Other") != nil || c2.DefaultVariables().FindByName("v") != nil {
						ok = false
					}
					if !ok {
						c.Violation("calculators-share-state", "two calculators are not independent: a function or variable added to one is visible in, or overwritten by, the other")
					}
					v1, v2 := variables.NewVariableCollection(), variables.NewVariableCollection()
					v1.Add(variables.NewVariable("x", nil))
					if v2.Length() != 0 || v2.FindByName("x") != nil {
						c.Violation("collections-share-state", "two variable collections are not independent")
					}
				}, Repr: func(i int64) string { return "two collections / calculators side by side" }},
				{Name: "variable-collection", N: countStrings(k, depth), Run: func(c *fw.Ctx, i int64) { c18Collections(c, seqByIndex(k, i), false) },
					Repr: func(i int64) string { return "VariableCollection [" + c18Hist(seqByIndex(k, i), c18Ops) + "]" }},
				{Name: "wide-collections", N: int64(len(widthCounts) * 5 * 2), Run: func(c *fw.Ctx, i int64) {
					c18Wide(c, widthCounts[int(i)/10], int(i)/2%5, i%2 == 1)
				}, Repr: func(i int64) string {
					return fmt.Sprintf("collection of %d distinct names plus a pair differing only in letter case (layout %d, functions: %v)", widthCounts[int(i)/10], i/2%5, i%2 == 1)
				}},
				{Name: "pumped-collection-histories", N: (countStrings(k, 2) - 1) * 5 * 2, Run: func(c *fw.Ctx, i int64) {
					base := seqByIndex(k, 1+i/10)
					n := []int{3, 9, 17, 65, 257}[i/2%5]
					h := []int{}
					for len(h) < n*len(base) {
						h = append(h, base...)
					}
					c18Collections(c, h, i%2 == 1)
				}, Repr: func(i int64) string {
					return fmt.Sprintf("[%s] repeated %d times (function collection: %v)", c18Hist(seqByIndex(k, 1+i/10), c18Ops), []int{3, 9, 17, 65, 257}[i/2%5], i%2 == 1)
				}},
				{Name: "collections-other-names", N: countStrings(k, depth-1) * 4, Run: func(c *fw.Ctx, i int64) {
					c18CollectionsNamed(c, seqByIndex(k, i/4), i%2 == 1, c18NameSets[1+i/2%2])
				}, Repr: func(i int64) string {
					return fmt.Sprintf("[%s] with (a, A, b) standing for %q (function collection: %v)", c18Hist(seqByIndex(k, i/4), c18Ops), c18NameSets[1+i/2%2], i%2 == 1)
				}},
				{Name: "function-collection", N: countStrings(k, depth), Run: func(c *fw.Ctx, i int64) { c18Collections(c, seqByIndex(k, i), true) },
					Repr: func(i int64) string { return "FunctionCollection [" + c18Hist(seqByIndex(k, i), c18Ops) + "]" }},
			}
		},
		Bounds: func(tier string) string {
			if tier == "thorough" {
				return "all collection histories of length<=5 over 15 operations; template piece sequences len<=4; 2.9k expression trees x 4 styles"
			}
			return "all collection histories of length<=4; template piece sequences len<=3; 2.9k expression trees x 4 styles"
		},
	})
}
