#!/bin/bash
# usage: refactor_check.sh <patch.diff> [tier] [ids...]
# Applies a behaviour-preserving change to a scratch worktree of /repo HEAD, runs the repository's tests
# and every check against it. Any VIOLATION here is a false alarm of the machinery (or the change is
# not behaviour-preserving after all - then it is a seed).
set -u
PATCH=$1; TIER=${2:-quick}; shift; shift || true
IDS=("$@"); [ ${#IDS[@]} -eq 0 ] && IDS=(C01 C02 C03 C04 C05 C06 C07 C08 C09 C10 C11 C12 C13 C14 C15 C16 C17 C18 C19 C20)
export GOFLAGS=-mod=mod GOPROXY=off GOSUMDB=off GOTOOLCHAIN=local TZ=UTC
WT=$(mktemp -d /tmp/rf-XXXXXX); OUT=$(mktemp -d /tmp/rfo-XXXXXX); rmdir "$WT"
git -C /repo worktree add -q --detach "$WT" HEAD || exit 2
trap 'git -C /repo worktree remove --force "$WT" 2>/dev/null; rm -rf "$WT" "$OUT"; git -C /repo worktree prune' EXIT
git -C "$WT" apply "$PATCH" || { echo "patch does not apply"; exit 2; }
( cd "$WT" && go build ./... ) || { echo "does not compile"; exit 2; }
echo "repo tests: $(/verif/tools/repo_tests.sh "$WT" | tail -1)"
for id in "${IDS[@]}"; do
  VERIF_REPO="$WT" VERIF_OUT="$OUT" VERIF_GOCACHE=/verif/.gocache /verif/run_check.sh "$id" "$TIER" > "$OUT/log.$id" 2>&1; rc=$?
  echo "check $id $TIER: exit=$rc $(grep "^  \[$id\]" "$OUT/log.$id" | sed "s/^  \[$id\] //" | tr '\n' ';' | cut -c1-300)"
  [ $rc -ne 0 ] && grep -A3 "^  \[$id\]" "$OUT/log.$id" | head -12 | cut -c1-400
done
