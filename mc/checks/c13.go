package checks

import (
	"fmt"
	"strings"
	"unicode"

	"verifmc/fw"

	calctok "github.com/pip-services3-gox/pip-services3-expressions-gox/calculator/tokenizers"
	"github.com/pip-services3-gox/pip-services3-expressions-gox/tokenizers"
	"github.com/pip-services3-gox/pip-services3-expressions-gox/tokenizers/generic"
)

// C13 — lexeme sequences tokenize back to themselves with the right classes.
// The lexical grammar is used as a *generator* (the model); the oracle is that
// the real tokenizer returns exactly the generated lexemes and classes.

type lexeme struct {
	text string
	typ  int
}

func lx(typ int, texts ...string) []lexeme {
	out := []lexeme{}
	for _, t := range texts {
		out = append(out, lexeme{t, typ})
	}
	return out
}

func c13Pool(kind string) []lexeme {
	p := []lexeme{}
	if kind == "generic" {
		p = append(p, lx(tokenizers.Word, "abc", "a_b1", "Z", "x-y", "été", "aя", "я", "привет", "日本")...)
		p = append(p, lx(tokenizers.Integer, "0", "12", "-12", "007")...)
		p = append(p, lx(tokenizers.Float, "1.5", ".5", "1.", "-1.5", "-.5")...)
		p = append(p, lx(tokenizers.Quoted, "'a'", "''", "\"a b\"", "'x\"y'", "\"it's\"", "'é\nя'", "\"\U0001F600\"")...)
		p = append(p, lx(tokenizers.Comment, "#", "# c 'x' 1", "#я")...)
		p = append(p, lx(tokenizers.Whitespace, " ", "  ", "\t", "\n", " \r\n ")...)
		p = append(p, lx(tokenizers.Symbol, "<>", "<=", ">=", "<", ">", "=", "+", "*", "(", ")", ",", "/", "!", ";", "-", ".", "{", "%", "&", "^")...)
		return p
	}
	if kind == "expression+keywords-edited" {
		// the exported keyword list is replaced AFTER the tokenizer was built and used (on "like", not on
		// "between"): LIKE is no keyword any more, BETWEEN is one. The list in force is the current one or,
		// for every word alike, the one at construction
		p = append(p, lx(tokenizers.Word, "like", "LIKE", "Like", "abc", "betweens")...)
		p = append(p, lx(tokenizers.Keyword, "between", "BETWEEN", "Between", "AND", "or", "null")...)
		p = append(p, lx(tokenizers.Integer, "1")...)
		p = append(p, lx(tokenizers.Whitespace, " ")...)
		p = append(p, lx(tokenizers.Symbol, "+", "(")...)
		return p
	}
	if kind == "generic+custom" || kind == "expression+custom" {
		// symbols of the user's own, some of them starting with the sign, one with a prefix that is no symbol
		p = append(p, lx(tokenizers.Word, "abc", "y")...)
		p = append(p, lx(tokenizers.Integer, "12")...)
		p = append(p, lx(tokenizers.Whitespace, " ")...)
		p = append(p, lx(tokenizers.Symbol, "->", "-=", "=:~", "~~>", "-", ">", "=", "~", ":", "<=", "(")...)
		return p
	}
	if kind == "generic+latesymbols" {
		// further symbols registered in two phases, the tokenizer used in between (c13New)
		p = append(p, lx(tokenizers.Word, "abc", "y")...)
		p = append(p, lx(tokenizers.Integer, "12")...)
		p = append(p, lx(tokenizers.Whitespace, " ")...)
		p = append(p, lx(tokenizers.Symbol, "<-->", "<-", "<", "-", ">", "<=", "=>>", "=>", "=", "+", "\u223c=", "\u223c")...)
		return p
	}
	if kind == "generic+symrange" {
		// arrows and mathematical operators configured back as symbols on top of the default word range
		p = append(p, lx(tokenizers.Word, "abc", "я", "привет", "aя", "日本")...)
		p = append(p, lx(tokenizers.Integer, "12", "-3")...)
		p = append(p, lx(tokenizers.Float, "1.5")...)
		p = append(p, lx(tokenizers.Quoted, "'я→'")...)
		p = append(p, lx(tokenizers.Comment, "#→я")...)
		p = append(p, lx(tokenizers.Whitespace, " ", "\n")...)
		p = append(p, lx(tokenizers.Symbol, "→", "≠", "∀", "<=", "<", "+", "(")...)
		return p
	}
	if kind == "expression+cyrillic" {
		// Cyrillic letters configured as identifier start letters on top of the default symbol range
		p = append(p, lx(tokenizers.Word, "abc", "я", "яб", "бв9", "aя", "Ѐ", "ӿ")...)
		p = append(p, lx(tokenizers.Keyword, "AND", "null")...)
		p = append(p, lx(tokenizers.Integer, "12")...)
		p = append(p, lx(tokenizers.Float, "1.5")...)
		p = append(p, lx(tokenizers.Quoted, "'я≠'")...)
		p = append(p, lx(tokenizers.Comment, "/* я≠ */")...)
		p = append(p, lx(tokenizers.Whitespace, " ", "\n")...)
		p = append(p, lx(tokenizers.Symbol, "≠", "→", "日", "Ͽ", "Ԁ", "<=", "<", "+", "(")...)
		return p
	}
	p = append(p, lx(tokenizers.Word, "abc", "a_b1", "_x", "Z9", "été", "aя", "\"a b\"", "\"\"", "\"q\"\"q\"", "\"é\nя\"")...)
	p = append(p, lx(tokenizers.Keyword, "AND", "or", "Not", "XOR", "like", "IS", "iN", "NULL", "null", "True", "FALSE")...)
	p = append(p, lx(tokenizers.Integer, "0", "12", "007")...)
	p = append(p, lx(tokenizers.Float, "1.5", ".5", "1.", "1e5", "1.5E-3", "2e+2", ".5e1", "1.E2")...)
	p = append(p, lx(tokenizers.Quoted, "'a'", "''", "'it''s'", "''''", "'x\"y'", "'é\nя'", "'\U0001F600'")...)
	p = append(p, lx(tokenizers.Comment, "/**/", "/* c */", "/* 'x' * / я */", "/***/")...)
	p = append(p, lx(tokenizers.Whitespace, " ", "  ", "\t", "\n", " \r\n ")...)
	p = append(p, lx(tokenizers.Symbol, "<=", ">=", "<>", "!=", ">>", "<<", "<", ">", "=", "!", "+", "-", "*", "/", "%", "^", "(", ")", "[", "]", ",", ".", "я", "@")...)
	return p
}

var c13Multi = map[string][]string{
	"generic":    {"<>", "<=", ">="},
	"expression": {"<=", ">=", "<>", "!=", ">>", "<<"},
	"generic+latesymbols": {"<>", "<=", ">=", "<-->", "<-", "=>>", "=>", "\u223c="},
	"generic+custom":      {"<>", "<=", ">=", "=:~", "->", "-=", "~~>"},
	"expression+custom":   {"<=", ">=", "<>", "!=", ">>", "<<", "=:~", "->", "-=", "~~>"},
}

func isWordCharConservative(r rune) bool {
	return unicode.IsLetter(r) || unicode.IsDigit(r) || r == '_' || r == '-' || r >= 0xc0
}

// longest registered symbol that prefixes s (or its first character)
func longestSymbol(kind string, s string) string {
	multi, ok := c13Multi[kind]
	if !ok {
		multi = c13Multi[c13Base(kind)]
	}
	best := string([]rune(s)[:1])
	for _, m := range multi {
		if strings.HasPrefix(s, m) && len(m) > len(best) {
			best = m
		}
	}
	return best
}

// canAbut is deliberately conservative: it returns true only when a and b
// written next to each other certainly stay two lexemes of the same classes.
func canAbut(kind string, a, b lexeme) bool {
	configured := kind != c13Base(kind)
	fullKind := kind
	kind = c13Base(kind)
	if configured && a.typ == tokenizers.Symbol && []rune(a.text)[0] >= 0x100 {
		// a non-Latin symbol ends after one character whatever follows
		return true
	}
	bf := []rune(b.text)[0]
	ar := []rune(a.text)
	al := ar[len(ar)-1]
	switch a.typ {
	case tokenizers.Word, tokenizers.Keyword:
		if al == '"' && a.typ == tokenizers.Word && ar[0] == '"' { // quoted identifier
			return bf != '"'
		}
		return !isWordCharConservative(bf)
	case tokenizers.Integer, tokenizers.Float:
		// the number grammar is ASCII: only a digit, a point, an exponent letter or a sign can continue a number
		return !(bf >= '0' && bf <= '9') && bf != '.' && bf != '+' && bf != '-' && bf != 'e' && bf != 'E'
	case tokenizers.Quoted:
		if kind == "expression" {
			return bf != ar[0]
		}
		return true
	case tokenizers.Comment:
		if kind == "generic" {
			return bf == '\n' || bf == '\r'
		}
		return true
	case tokenizers.Whitespace:
		return b.typ != tokenizers.Whitespace && bf > ' '
	case tokenizers.Symbol:
		if a.text == "-" || a.text == "." {
			if unicode.IsDigit(bf) || bf == '.' {
				return false
			}
		}
		if a.text == "-" && kind == "generic" && (bf == '-') {
			return false
		}
		if a.text == "/" && (bf == '*' || bf == '/') {
			return false
		}
		if a.text == "я" && isWordCharConservative(bf) && kind == "generic" {
			return false
		}
		if c13Resegmented[fullKind] && b.typ == tokenizers.Symbol {
			return true // runs of symbols are re-segmented by the reference (longest registered symbol first)
		}
		// symbols registered beyond the documented ones are configuration: a pair that, alone, comes back
		// as one symbol can merge
		if c13OneSymbolAlone(fullKind, a.text+string(bf)) || (b.typ == tokenizers.Symbol && c13OneSymbolAlone(fullKind, a.text+b.text)) {
			return false
		}
		return longestSymbol(fullKind, a.text+b.text) == a.text
	}
	return false
}

var c13AloneMemo = map[string]bool{}

func c13OneSymbolAlone(kind string, s string) bool {
	if kind == "expression+keywords-edited" {
		kind = "expression"
	}
	key := kind + "\x00" + s
	if v, ok := c13AloneMemo[key]; ok {
		return v
	}
	r := tokenizeOn(c13New(kind), s)
	v := !r.failed() && len(r.toks) == 2 && r.toks[0].typ == tokenizers.Symbol && r.toks[0].val == s
	c13AloneMemo[key] = v
	return v
}

// kinds whose runs of adjacent symbols are re-segmented by the reference (longest registered symbol first)
var c13Resegmented = map[string]bool{"generic+latesymbols": true, "generic+custom": true, "expression+custom": true}

var c13Tok = map[string]tokenizers.ITokenizer{}

func c13Base(kind string) string { return strings.SplitN(kind, "+", 2)[0] }

// c13New builds a fresh tokenizer of the kind; the "+..." kinds configure a narrower
// non-Latin range on top of the default one through the public SetCharacterState
func c13New(kind string) tokenizers.ITokenizer {
	t := newTokenizer(c13Base(kind))
	switch kind {
	case "generic+custom", "expression+custom":
		t = newTokenizer(kind)
	case "generic+symrange":
		g := t.(*generic.GenericTokenizer)
		g.SetCharacterState(0x2190, 0x22ff, g.SymbolState())
	case "generic+latesymbols":
		// long symbols first, the tokenizer used on texts that fail deep inside them, then their prefixes
		g := t.(*generic.GenericTokenizer)
		g.SymbolState().Add("<-->", tokenizers.Symbol)
		g.SymbolState().Add("=>>", tokenizers.Symbol)
		for _, in := range []string{"<--y", "<-y", "<-->", "=>y", "=>>", "<--", "=>"} {
			fw.Try(func() { g.TokenizeBuffer(in) })
		}
		g.SymbolState().Add("<-", tokenizers.Symbol)
		g.SymbolState().Add("=>", tokenizers.Symbol)
		// a symbol whose first character equals '<' modulo 256, declared a symbol character first
		g.SetCharacterState(0x223c, 0x223c, g.SymbolState())
		g.SymbolState().Add("\u223c=", tokenizers.Symbol)
	case "expression+keywords-edited":
		// built and used under the default keyword list
		fw.Try(func() { t.TokenizeBuffer("a like b and 1") })
	case "expression+cyrillic":
		e := t.(*calctok.ExpressionTokenizer)
		e.SetCharacterState(0x0400, 0x04ff, e.WordState())
	}
	setOptions(t, 0)
	return t
}

func c13Run(c *fw.Ctx, kind string, pool []lexeme, seq []int, mode int) {
	lex := make([]lexeme, len(seq))
	for i, s := range seq {
		lex[i] = pool[s]
	}
	var text strings.Builder
	want := []lexeme{}
	if mode == 0 { // separated by one blank (newline after a generic comment); whitespace lexemes excluded
		for i, l := range lex {
			if l.typ == tokenizers.Whitespace {
				c.Count("skipped_whitespace_lexeme_in_separated_mode", 1)
				return
			}
			if i > 0 {
				sep := " "
				if c13Base(kind) == "generic" && lex[i-1].typ == tokenizers.Comment {
					sep = "\n"
				}
				text.WriteString(sep)
				want = append(want, lexeme{sep, tokenizers.Whitespace})
			}
			text.WriteString(l.text)
			want = append(want, l)
		}
	} else { // abutting where neighbours certainly cannot merge
		for i, l := range lex {
			if i > 0 && !canAbut(kind, lex[i-1], l) {
				c.Count("skipped_neighbours_could_merge", 1)
				return
			}
			text.WriteString(l.text)
			want = append(want, l)
		}
	}
	if c13Resegmented[kind] && mode == 1 {
		// adjacent symbols: expected segmentation = greedy longest registered symbol over the whole run
		seg := []lexeme{}
		for i := 0; i < len(want); {
			if want[i].typ != tokenizers.Symbol {
				seg = append(seg, want[i])
				i++
				continue
			}
			run := ""
			for i < len(want) && want[i].typ == tokenizers.Symbol {
				run += want[i].text
				i++
			}
			for run != "" {
				sym := longestSymbol(kind, run)
				seg = append(seg, lexeme{sym, tokenizers.Symbol})
				run = run[len(sym):]
			}
		}
		want = seg
	}
	in := text.String()
	if kind == "expression+keywords-edited" {
		saved := calctok.Keywords
		edited := []string{"BETWEEN"}
		for _, k := range saved {
			if k != "LIKE" {
				edited = append(edited, k)
			}
		}
		if c13Tok[kind] == nil {
			c13Tok[kind] = c13New(kind) // built before the list is replaced
		}
		calctok.Keywords = edited
		defer func() { calctok.Keywords = saved }()
	}
	t := c13Tok[kind]
	if t == nil {
		t = c13New(kind)
		c13Tok[kind] = t
	}
	res := tokenizeOn(t, in)
	c.Eval(1)
	okFor := func(r tokResult, want []lexeme) bool {
		if r.failed() || len(r.toks) != len(want)+1 {
			return false
		}
		for i, w := range want {
			if r.toks[i].val != w.text || r.toks[i].typ != w.typ {
				return false
			}
		}
		return r.toks[len(want)].typ == tokenizers.Eof
	}
	ok := func(r tokResult) bool {
		if okFor(r, want) {
			return true
		}
		if kind == "expression+keywords-edited" {
			// whether an object built earlier follows the list at its construction or the current one is
			// not pinned; it must follow ONE of them for every word of the input
			old := append([]lexeme{}, want...)
			for i, w := range old {
				if strings.EqualFold(w.text, "like") {
					old[i].typ = tokenizers.Keyword
				} else if strings.EqualFold(w.text, "between") {
					old[i].typ = tokenizers.Word
				}
			}
			return okFor(r, old)
		}
		return false
	}
	if !ok(res) {
		delete(c13Tok, kind)
		res = tokenizeOn(c13New(kind), in) // fresh instance decides
		if ok(res) {
			c.Violation("lexemes-only-on-reused-instance:"+kind, "%s tokenizer: %q differs on a reused instance", kind, in)
			return
		}
		ws := []string{}
		for _, w := range want {
			ws = append(ws, fmt.Sprintf("%s%q", tokTypeName(w.typ), w.text))
		}
		// signature: first differing lexeme's class and what it became
		sig := "lexeme-split-or-merged"
		if res.failed() {
			sig = "tokenize-fails"
		} else {
			for i, w := range want {
				if i >= len(res.toks) {
					break
				}
				if res.toks[i].val != w.text {
					sig = fmt.Sprintf("%s-lexeme-resegmented", tokTypeName(w.typ))
					break
				}
				if res.toks[i].typ != w.typ {
					sig = fmt.Sprintf("%s-lexeme-classified-as-%s", tokTypeName(w.typ), tokTypeName(res.toks[i].typ))
					break
				}
			}
		}
		detail := tokShort(res.toks)
		if res.failed() {
			detail = res.failStr()
		}
		c.Violation(sig+":"+kind, "%s tokenizer, input %q: expected [%s], got %s", kind, in, strings.Join(ws, " "), detail)
		return
	}
	if len(lex) >= 2 {
		c.Nontrivial()
	}
	if len(lex) > 0 {
		c.Outcome(fmt.Sprintf("%s:mode%d:first=%s", kind, mode, tokTypeName(lex[0].typ)))
	}
}

// c13ConfiguredClass: which state a tokenizer of the kind is configured to enter on a non-Latin character
// (the dispatch table is configuration, read through the public getter; C17 decides that it answers
// faithfully): Word, Symbol, Whitespace, or 0 for anything else
func c13ConfiguredClass(kind string, ch rune) int {
	t := c13New(kind)
	g, ok := t.(interface {
		GetCharacterState(rune) tokenizers.ITokenizerState
	})
	if !ok {
		return 0
	}
	var st tokenizers.ITokenizerState
	if pv := fw.Try(func() { st = g.GetCharacterState(ch) }); pv != nil || st == nil {
		return 0
	}
	switch {
	case st == tokenizers.ITokenizerState(t.WordState()):
		return tokenizers.Word
	case st == tokenizers.ITokenizerState(t.SymbolState()):
		return tokenizers.Symbol
	case st == tokenizers.ITokenizerState(t.WhitespaceState()):
		return tokenizers.Whitespace
	}
	return 0
}

// c13Adjust: lexemes that start with a non-Latin character (U+0100 and above) get the class the tokenizer
// is configured for - a single symbol character that is configured as a letter is an identifier, an
// identifier whose first letter is configured as a symbol is dropped from the pool
func c13Adjust(kind string, pool []lexeme) []lexeme {
	out := []lexeme{}
	for _, l := range pool {
		r := []rune(l.text)
		if len(r) == 0 || r[0] < 0x100 || (l.typ != tokenizers.Symbol && l.typ != tokenizers.Word) {
			out = append(out, l)
			continue
		}
		cls := c13ConfiguredClass(kind, r[0])
		switch {
		case cls == l.typ:
			out = append(out, l)
		case cls == tokenizers.Word && l.typ == tokenizers.Symbol && len(r) == 1:
			out = append(out, lexeme{l.text, tokenizers.Word})
		}
	}
	return out
}

// class of a one-character lexeme by the documented dispatch tables of the two tokenizers (0 = the
// character starts a number, a string or a comment, or cannot be dispatched: not used on its own)
func c13StartClass(kind string, ch rune) int {
	if ch > 0xfffe || ch < 0 || (ch >= 0xd800 && ch <= 0xdfff) {
		return 0
	}
	switch {
	case ch <= ' ':
		return tokenizers.Whitespace
	case ch >= 'a' && ch <= 'z', ch >= 'A' && ch <= 'Z', ch >= 0xc0 && ch <= 0xff:
		return tokenizers.Word
	case ch >= '0' && ch <= '9', ch == '-', ch == '.', ch == '"', ch == '\'':
		return 0
	}
	if ch >= 0x100 {
		return c13ConfiguredClass(kind, ch) // how non-Latin characters are dispatched is configuration
	}
	if kind == "generic" {
		if ch == '#' {
			return 0
		}
		return tokenizers.Symbol
	}
	if ch == '/' {
		return 0
	}
	if ch == '_' {
		return tokenizers.Word
	}
	return tokenizers.Symbol
}

var c13Neighbours = []lexeme{{"12", tokenizers.Integer}, {"1.5", tokenizers.Float}, {"1.", tokenizers.Float}, {"abc", tokenizers.Word}, {"<", tokenizers.Symbol}, {"(", tokenizers.Symbol}, {"'a'", tokenizers.Quoted}, {" ", tokenizers.Whitespace}}

// c13CharCase: one boundary character as a lexeme of its own class next to each neighbour lexeme, abutting
func c13CharCase(i int64) (kind string, pool []lexeme, seq []int, ok bool) {
	nn := int64(len(c13Neighbours))
	shape := int(i % 3)
	i /= 3
	l := int(i % nn)
	i /= nn
	kind = []string{"generic", "expression"}[i%2]
	ch := boundaryChars[i/2]
	cls := c13StartClass(kind, ch)
	if cls == 0 {
		return kind, nil, nil, false
	}
	if cls == tokenizers.Word && strings.EqualFold(string(ch), "x") {
		return kind, nil, nil, false
	}
	pool = []lexeme{c13Neighbours[l], {string(ch), cls}}
	seq = [][]int{{0, 1}, {1, 0}, {0, 1, 0}}[shape]
	return kind, pool, seq, true
}

func init() {
	fw.Register(&fw.Check{
		ID:    "C13",
		Level: "model_checking",
		Rule: "generic and expression tokenizer: every sequence up to the length bound over a pool of class-tagged lexemes (identifiers incl. Latin-1/non-Latin, every keyword in several letter cases, integers, decimals, scientific/signed numbers, quoted strings with doubled quotes/LF/non-ASCII, comments, whitespace runs, every single- and multi-character symbol), " +
			"the same over smaller pools for both tokenizers with symbols of the user's own (some starting with the sign, one with a prefix that is no symbol), for a generic tokenizer with U+2190..22FF configured as symbols and an expression tokenizer with U+0400..04FF configured as identifier letters (SetCharacterState on top of the default non-Latin range); (mode 0) separated by one blank and (mode 1) abutting wherever a conservative boundary table says neighbours cannot merge; plus every boundary character (one or more of every Unicode general category among them) as a one-character lexeme of the class its dispatch table gives it, abutting before, after and between 8 neighbour lexemes; oracle: TokenizeStream returns exactly those lexemes with exactly those classes; non-trivial = sequences of >=2 lexemes that were not skipped",
		Assume: []string{"the conservative abutting table only ever skips sequences; it never predicts a segmentation", "multi-character symbols beyond the documented ones are taken as registered where the pair alone comes back as one symbol (such pairs are not written next to each other)"},
		Spaces: func(tier string) []fw.Space {
			maxLen := 3
			if tier == "thorough" {
				maxLen = 4
			}
			sp := []fw.Space{}
			for _, kind := range []string{"generic", "expression", "generic+symrange", "expression+cyrillic", "generic+latesymbols", "expression+keywords-edited", "generic+custom", "expression+custom"} {
				kind := kind
				pool := c13Adjust(kind, c13Pool(kind))
				for mode := 0; mode < 2; mode++ {
					mode := mode
					sp = append(sp, fw.Space{Name: fmt.Sprintf("%s-mode%d", kind, mode), N: countStrings(len(pool), maxLen),
						Run: func(c *fw.Ctx, i int64) { c13Run(c, kind, pool, seqByIndex(len(pool), i), mode) },
						Repr: func(i int64) string {
							s := []string{}
							for _, k := range seqByIndex(len(pool), i) {
								s = append(s, fmt.Sprintf("%q", pool[k].text))
							}
							return fmt.Sprintf("%s tokenizer, lexemes [%s] %s", kind, strings.Join(s, " "), []string{"blank-separated", "abutting"}[mode])
						}})
				}
			}
			sp = append(sp, fw.Space{Name: "character-classes", N: int64(len(boundaryChars) * 2 * len(c13Neighbours) * 3),
				Run: func(c *fw.Ctx, i int64) {
					kind, pool, seq, ok := c13CharCase(i)
					if !ok {
						c.Count("skipped_character_is_no_lexeme_on_its_own", 1)
						return
					}
					c13Run(c, kind, pool, seq, 1)
				},
				Repr: func(i int64) string {
					kind, pool, seq, ok := c13CharCase(i)
					if !ok {
						return "skipped"
					}
					s := []string{}
					for _, k := range seq {
						s = append(s, fmt.Sprintf("%q", pool[k].text))
					}
					return fmt.Sprintf("%s tokenizer, lexemes [%s] abutting", kind, strings.Join(s, " "))
				}})
			return sp
		},
		Bounds: func(tier string) string {
			if tier == "thorough" {
				return "all lexeme sequences of length<=4 over pools of 53 (generic) / 67 (expression) lexemes and of 19 / 26 lexemes for the two tokenizers with a configured narrower non-Latin range, two joining modes"
			}
			return "all lexeme sequences of length<=3 (default and configured-range tokenizers), two joining modes"
		},
	})
}
