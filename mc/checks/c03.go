package checks

import (
	"fmt"
	"strings"

	"verifmc/fw"

	"github.com/pip-services3-gox/pip-services3-expressions-gox/calculator"
	"github.com/pip-services3-gox/pip-services3-expressions-gox/calculator/variables"
	"github.com/pip-services3-gox/pip-services3-expressions-gox/mustache"
	"github.com/pip-services3-gox/pip-services3-expressions-gox/variants"
)

// C03 — untrusted input never crashes the library: a result or an error, always.

var c03ExprAlphabet = []rune("1a()[],+-*/^<>=!'\".e_ \néя\U0001F600")

func c03Expr(c *fw.Ctx, text string) {
	calc := calculator.NewExpressionCalculator()
	var serr error
	pv := fw.Try(func() { serr = calc.SetExpression(text) })
	c.Eval(1)
	if pv != nil {
		c.Violation("SetExpression-panics", "SetExpression(%q) panics: %s", text, panicShort(pv))
		return
	}
	evalOnce := func(label string, f func() (*variants.Variant, error)) {
		var r *variants.Variant
		var err error
		pv := fw.Try(func() { r, err = f() })
		c.Eval(1)
		switch {
		case pv != nil:
			c.Violation("Evaluate-panics", "expression %q (SetExpression: %s) %s panics: %s", text, errStr(serr), label, panicShort(pv))
		case (r == nil) == (err == nil):
			c.Violation("Evaluate-result-xor-error", "expression %q %s returns result=%v err=%v", text, label, r != nil, err)
		}
	}
	// Evaluate is called after a failed SetExpression as well
	evalOnce("Evaluate()", func() (*variants.Variant, error) { return calc.Evaluate() })
	if serr == nil {
		c.Nontrivial()
		for _, mk := range []func() *variants.Variant{
			func() *variants.Variant { return variants.VariantFromInteger(1) },
			func() *variants.Variant { return variants.VariantFromArray([]*variants.Variant{variants.VariantFromInteger(1)}) },
			func() *variants.Variant { return variants.VariantFromString("é") },
		} {
			vars := variables.NewVariableCollection()
			for _, n := range []string{"a", "e", "_", "é", "a1", "e1", "ea", "ae", "aa", "ee", "a_", "_a", "e_", "_e", "__", "_1", "a.", "e."} {
				vars.Add(variables.NewVariable(n, mk()))
			}
			// every variable the parser discovered gets the value too
			for _, v := range calc.DefaultVariables().GetAll() {
				if vars.FindByName(v.Name()) == nil {
					vars.Add(variables.NewVariable(v.Name(), mk()))
				}
			}
			evalOnce("EvaluateUsingVariables("+variantStr(mk())+")", func() (*variants.Variant, error) { return calc.EvaluateUsingVariables(vars) })
		}
		c.Outcome("parsed")
	} else {
		c.Outcome("rejected")
	}
}

// (b) evaluation matrix through the calculator
var c03Forms = []string{"a AND b", "a OR b", "a XOR b", "a = b", "a <> b", "a != b", "a > b", "a < b", "a >= b", "a <= b", "a + b", "a - b", "a LIKE b", "a NOT LIKE b", "a NOT IN b",
	"a * b", "a / b", "a % b", "a ^ b", "a IN b", "a << b", "a >> b", "NOT a", "-a", "a[b]", "a IS NULL", "a IS NOT NULL", "-a[b]", "NOT a IN b"}

type c03Compiled struct {
	calc *calculator.ExpressionCalculator
}

var c03Cache = map[string]*calculator.ExpressionCalculator{}

func c03Calc(text string, safe bool) *calculator.ExpressionCalculator {
	key := fmt.Sprintf("%v|%s", safe, text)
	if cc, ok := c03Cache[key]; ok {
		return cc
	}
	calc := calculator.NewExpressionCalculator()
	calc.SetVariantOperations(opsManager(safe))
	if err := calc.SetExpression(text); err != nil {
		return nil
	}
	c03Cache[key] = calc
	return calc
}

func c03EvalForm(c *fw.Ctx, text string, safe bool, vals []poolVal) {
	calc := c03Calc(text, safe)
	if calc == nil {
		c.Violation("matrix-form-rejected", "SetExpression(%q) fails", text)
		return
	}
	vars := variables.NewVariableCollection()
	names := []string{"a", "b", "c"}
	labels := []string{}
	for i, v := range vals {
		vars.Add(variables.NewVariable(names[i], v.mk()))
		labels = append(labels, names[i]+"="+v.label)
	}
	var r *variants.Variant
	var err error
	pv := fw.Try(func() { r, err = calc.EvaluateUsingVariables(vars) })
	c.Eval(1)
	c.Nontrivial()
	desc := fmt.Sprintf("%s %q with %s", mgrName(safe), text, strings.Join(labels, ", "))
	form := text
	if i := strings.Index(text, "("); i > 0 {
		form = text[:i] + "(...)"
	}
	switch {
	case pv != nil:
		c.Violation("evaluation-panics:"+form, "%s panics: %s", desc, panicShort(pv))
	case (r == nil) == (err == nil):
		c.Violation("evaluation-result-xor-error:"+form, "%s returns result=%v err=%v", desc, r != nil, err)
	case err != nil:
		c.Outcome("error")
	default:
		c.Outcome("value:" + tn(r.Type()))
	}
}

// argument-list shapes, well-formed and not, for every function name
var c03ArgShapes = []string{"F()", "F(1)", "F(1,)", "F(1,2)", "F(1,2,)", "F(,)", "F(,1)", "F(1,,2)", "F((1))", "F(1,(2,3))", "F(F(1,),2)", "1+F(2,)", "F(1,2,3,)", "F(a,)", "F(a,b,)[0]", "-F(1,)", "F(1,) IS NULL", "F(", "F(1", "F(1,", "F)"}

// ... and every argument list of 1..8 ones with one position holding a list, a string or null, alone and as an operand
func init() {
	for n := 1; n <= 8; n++ {
		for p := 0; p < n; p++ {
			for _, bad := range []string{"[9]", "'x'", "null"} {
				args := make([]string, n)
				for k := range args {
					args[k] = "1"
				}
				args[p] = bad
				c03ArgShapes = append(c03ArgShapes, "F("+strings.Join(args, ",")+")")
				if bad == "[9]" {
					c03ArgShapes = append(c03ArgShapes, "F("+strings.Join(args, ",")+") IS NULL")
				}
			}
		}
	}
}

// (c) templates
var c03TmplLexemes = []string{"{{", "}}", "{{{", "}}}", "#", "/", "^", "!", "if", "unless", "a", "b", " ", "x", "'"}
var c03TmplChars = []rune("{}#/a '\U0001F600")

func c03Template(c *fw.Ctx, text string) {
	t := mustache.NewMustacheTemplate()
	var serr error
	pv := fw.Try(func() { serr = t.SetTemplate(text) })
	c.Eval(1)
	if pv != nil {
		c.Violation("SetTemplate-panics", "SetTemplate(%q) panics: %s", text, panicShort(pv))
		return
	}
	for _, m := range []map[string]string{nil, {"a": "v", "B": ""}, {}} {
		pv := fw.Try(func() { t.EvaluateWithVariables(m) })
		c.Eval(1)
		if pv != nil {
			c.Violation("template-Evaluate-panics", "template %q (SetTemplate: %s) EvaluateWithVariables(%v) panics: %s", text, errStr(serr), m, panicShort(pv))
		}
	}
	if serr == nil {
		c.Nontrivial()
		c.Outcome("template-accepted")
	} else {
		c.Outcome("template-rejected")
	}
}

// (d) tokenizers under option sets
func c03Tokenize(c *fw.Ctx, kind, text string) {
	sets := []int{optSkipWhitespaces | optSkipComments | optSkipEof | optDecode, 127}
	for i := 0; i < 7; i++ {
		sets = append(sets, 1<<i)
	}
	for _, o := range sets {
		r := tokenize(kind, o, text)
		c.Eval(1)
		if r.failed() {
			sig := "tokenizer-panics:" + kind
			if _, ok := r.panic.(budgetExceeded); ok {
				sig = "tokenizer-nonterminating:" + kind
			}
			c.Violation(sig, "%s tokenizer, options %s, input %q: %s", kind, optStr(o), text, r.failStr())
		}
	}
	c.Nontrivial()
}

func init() {
	fw.Register(&fw.Check{
		ID:    "C03",
		Level: "model_checking",
		Rule: "(a) every string up to the length bound over 25 significant expression characters: SetExpression, Evaluate (also after a failed SetExpression), EvaluateUsingVariables with all variables = 1, [1] and a non-ASCII string; (b) evaluation matrix through the calculator: 29 operator forms x all ordered pairs of the boundary pool and all 37 functions with 0..3 arguments from the pool, both managers; " +
			"(c) every template lexeme sequence and character string up to the bound (joined without separators): SetTemplate and rendering with three maps; (d) every tokenizer on its C04 alphabet under the parser's option set, all options, and each single option; oracle: normal return (no panic, no hang, no process death) and exactly one of result/error from every evaluating call; non-trivial = inputs that parsed / matrix cells",
		Assume: []string{"non-termination of SetExpression/SetTemplate is decided by the worker watchdog (20 s per case, reproduced 3x)", "tokenizer termination by the scanner step budget"},
		Spaces: func(tier string) []fw.Space {
			exprLen, lexLen, chLen := 4, 5, 6
			tokLens := map[string]int{"generic": 4, "expression": 4, "csv": 5, "mustache": 5}
			if tier == "thorough" {
				exprLen, lexLen, chLen = 5, 6, 7
				tokLens = map[string]int{"generic": 5, "expression": 5, "csv": 6, "mustache": 6}
			}
			pool := valuePool(tier)
			np := int64(len(pool))
			fpool := c08ArgPool()
			nfp := int64(len(fpool))
			nf := int64(len(c08Names))
			sp := []fw.Space{
				{Name: "expression-text", N: countStrings(len(c03ExprAlphabet), exprLen), Run: func(c *fw.Ctx, i int64) { c03Expr(c, stringByIndex(c03ExprAlphabet, i)) },
					Repr: func(i int64) string { return fmt.Sprintf("expression %q", stringByIndex(c03ExprAlphabet, i)) }},
				{Name: "operator-matrix", N: int64(len(c03Forms)) * np * np * 2, Run: func(c *fw.Ctx, i int64) {
					safe := i%2 == 1
					j := i / 2
					f := c03Forms[int(j)%len(c03Forms)]
					j /= int64(len(c03Forms))
					c03EvalForm(c, f, safe, []poolVal{pool[j/np], pool[j%np]})
				}, Repr: func(i int64) string {
					j := i / 2
					f := c03Forms[int(j)%len(c03Forms)]
					j /= int64(len(c03Forms))
					return fmt.Sprintf("%s %q with a=%s b=%s", mgrName(i%2 == 1), f, pool[j/np].label, pool[j%np].label)
				}},
				{Name: "function-matrix", N: countStrings(int(nfp), 3) * nf * 2, Run: func(c *fw.Ctx, i int64) {
					safe := i%2 == 1
					fi := int(i / 2 % nf)
					seq := seqByIndex(int(nfp), i/(2*nf))
					args := []string{"a", "b", "c"}[:len(seq)]
					name := c08Names[fi]
					if name == "Null" {
						name = "\"Null\""
					}
					vals := []poolVal{}
					for _, k := range seq {
						vals = append(vals, fpool[k])
					}
					c03EvalForm(c, name+"("+strings.Join(args, ",")+")", safe, vals)
				}, Repr: func(i int64) string {
					return fmt.Sprintf("%s function %s with argument list #%d", mgrName(i%2 == 1), c08Names[int(i/2%nf)], i/(2*nf))
				}},
				{Name: "call-shapes", N: nf * int64(len(c03ArgShapes)) * 2, Run: func(c *fw.Ctx, i int64) {
					name := c08Names[int(i/2)%len(c08Names)]
					if name == "Null" {
						name = "\"Null\""
					}
					text := strings.Replace(c03ArgShapes[int(i/2)/len(c08Names)], "F", name, 1)
					calc := calculator.NewExpressionCalculator()
					calc.SetVariantOperations(opsManager(i%2 == 1))
					var r *variants.Variant
					var err, serr error
					pv := fw.Try(func() {
						if serr = calc.SetExpression(text); serr == nil {
							r, err = calc.Evaluate()
						}
					})
					c.Eval(1)
					c.Nontrivial()
					if pv != nil || (serr == nil && (r == nil) == (err == nil)) {
						c.Violation("call-shape-crashes", "%s %q: panic %v, SetExpression %s, result=%v err=%v", mgrName(i%2 == 1), text, pv, errStr(serr), r != nil, err)
					}
				}, Repr: func(i int64) string {
					return fmt.Sprintf("%s call shape %q for %s", mgrName(i%2 == 1), c03ArgShapes[int(i/2)/len(c08Names)], c08Names[int(i/2)%len(c08Names)])
				}},
				{Name: "functions-after-table-edits", N: nf * 3, Run: func(c *fw.Ctx, i int64) {
					// evaluate every function after entries were removed from / added to the calculator's own table
					name := c08Names[int(i%nf)]
					calc := calculator.NewExpressionCalculator()
					fw.Try(func() {
						switch i / nf {
						case 0:
							calc.DefaultFunctions().RemoveByName("Now")
						case 1:
							calc.DefaultFunctions().Remove(0)
							calc.DefaultFunctions().RemoveByName("Date")
						case 2:
							calc.DefaultFunctions().RemoveByName("Array")
							calc.DefaultFunctions().RemoveByName("Ticks")
						}
					})
					fn := name
					if fn == "Null" {
						fn = "\"Null\""
					}
					for _, text := range []string{fn + "()", fn + "(1)", fn + "(1,2)", fn + "(1,2,3)"} {
						var r *variants.Variant
						var err error
						pv := fw.Try(func() {
							if e := calc.SetExpression(text); e != nil {
								err = e
								return
							}
							r, err = calc.Evaluate()
						})
						c.Eval(1)
						if pv != nil || (r == nil) == (err == nil) {
							c.Violation("evaluation-panics-after-function-table-edit", "%q after removing entries from the calculator's function table: panic %v result=%v err=%v", text, pv, r != nil, err)
						}
					}
					c.Nontrivial()
				}, Repr: func(i int64) string { return fmt.Sprintf("function %s after function-table edit %d", c08Names[int(i%nf)], i/nf) }},
				{Name: "template-lexemes", N: countStrings(len(c03TmplLexemes), lexLen), Run: func(c *fw.Ctx, i int64) {
					c03Template(c, strings.Join(lexemesByIndex(c03TmplLexemes, i), ""))
				}, Repr: func(i int64) string {
					return fmt.Sprintf("template %q", strings.Join(lexemesByIndex(c03TmplLexemes, i), ""))
				}},
				{Name: "template-characters", N: countStrings(len(c03TmplChars), chLen), Run: func(c *fw.Ctx, i int64) { c03Template(c, stringByIndex(c03TmplChars, i)) },
					Repr: func(i int64) string { return fmt.Sprintf("template %q", stringByIndex(c03TmplChars, i)) }},
			}
			// width pumps: k DISTINCT names / arguments / elements / nested sections in one input
			wide := []func(k int) (string, bool){
				func(k int) (string, bool) { return strings.Join(distinctNames(k, 0), " + "), true },
				func(k int) (string, bool) { return "Sum(" + strings.Join(distinctNames(k, 0), ", ") + ")", true },
				func(k int) (string, bool) { return "Max(" + strings.Join(distinctNames(k, 1), ",") + ") - Min(" + strings.Join(distinctNames(k, 2), ",") + ")", true },
				func(k int) (string, bool) { return "Array(" + strings.Join(distinctNames(k, 0), ", ") + ")[" + itoa(k-1) + "]", true },
				func(k int) (string, bool) { return "v1 IN Array(" + strings.Join(distinctNames(k, 3), ", ") + ")", true },
				func(k int) (string, bool) { return strings.Join(distinctNames(k, 0), " AND NOT ") + " OR v1 IS NULL", true },
				func(k int) (string, bool) { return "{{" + strings.Join(distinctNames(k, 0), "}} {{{") + "}}}", false },
				func(k int) (string, bool) {
					open, cl := "", ""
					for _, n := range distinctNames(k, 0) {
						open += "{{#" + n + "}}"
						cl = "{{/" + n + "}}" + cl
					}
					return open + "x" + cl, false
				},
			}
			sp = append(sp, fw.Space{Name: "wide-inputs", N: int64(len(wide) * len(widthCounts)), Run: func(c *fw.Ctx, i int64) {
				text, isExpr := wide[int(i)%len(wide)](widthCounts[int(i)/len(wide)])
				if isExpr {
					c03Expr(c, text)
				} else {
					c03Template(c, text)
				}
			}, Repr: func(i int64) string {
				text, _ := wide[int(i)%len(wide)](widthCounts[int(i)/len(wide)])
				return fmt.Sprintf("input with %d distinct names %q", widthCounts[int(i)/len(wide)], text)
			}})
			// change-directed: literals that are new in the working tree as extra letters
			if na := newAtoms(5); len(na) > 0 {
				ea := append(append([]string{}, na...), "a", "1", "(", ",", ")")
				sp = append(sp, fw.Space{Name: "new-literals-expression", N: countStrings(len(ea), 5),
					Run:  func(c *fw.Ctx, i int64) { c03Expr(c, strings.Join(lexemesByIndex(ea, i), "")) },
					Repr: func(i int64) string { return fmt.Sprintf("expression %q (letters incl. literals new in the working tree: %q)", strings.Join(lexemesByIndex(ea, i), ""), na) }})
				ta := append(append([]string{}, na...), "a", "{{", "}}", "#", "/")
				sp = append(sp, fw.Space{Name: "new-literals-template", N: countStrings(len(ta), 5),
					Run:  func(c *fw.Ctx, i int64) { c03Template(c, strings.Join(lexemesByIndex(ta, i), "")) },
					Repr: func(i int64) string { return fmt.Sprintf("template %q (letters incl. literals new in the working tree: %q)", strings.Join(lexemesByIndex(ta, i), ""), na) }})
			}
			tokLens["generic+cpp"] = tokLens["csv"]
			tokLens["csv+latin1"] = tokLens["csv"]
			tokLens["csv+wide"] = tokLens["csv"]
			for _, kind := range append(append([]string{}, tokKindsExt...), "generic+cpp") {
				kind := kind
				al := tokAlphabets[kind]
				sp = append(sp, fw.Space{Name: "tokenizer-" + kind, N: countStrings(len(al), tokLens[kind]),
					Run:  func(c *fw.Ctx, i int64) { c03Tokenize(c, kind, stringByIndex(al, i)) },
					Repr: func(i int64) string { return fmt.Sprintf("%s tokenizer, input %q, 9 option sets", kind, stringByIndex(al, i)) }})
			}
			return sp
		},
		Bounds: func(tier string) string {
			if tier == "thorough" {
				return "expression strings len<=5 over 25 chars (10M); operator matrix over the 103-value pool; functions x lists len<=3 over 16 values; template lexeme sequences len<=6 over 15 lexemes, character strings len<=7 over 8 chars; tokenizer inputs len<=5/6 x 9 option sets"
			}
			return "expression strings len<=4 (406k); operator matrix over the 66-value pool; functions x lists len<=3 over 16 values; template lexemes len<=5, characters len<=6; tokenizer inputs len<=4/5 x 9 option sets"
		},
	})
}
