#!/bin/bash
# Runs the repository's own test suite (guard off; there are no guarded hooks) in $1 (default /repo)
# and prints the number of passing top-level tests; exit 0 iff all 44 baseline tests pass.
D=${1:-/repo}
export GOFLAGS=-mod=mod GOPROXY=off GOSUMDB=off GOTOOLCHAIN=local TZ=${TZ:-UTC}
cd "$D" || exit 2
out=$(go test -json -vet=off -count=1 -timeout 25m ./... 2>&1)
pass=$(echo "$out" | grep -c '"Action":"pass","Package":"[^"]*","Test":"[^"/]*"')
fail=$(echo "$out" | grep -c '"Action":"fail","Package":"[^"]*","Test":"[^"/]*"')
echo "top-level tests: pass=$pass fail=$fail"
if [ "$fail" -ne 0 ] || [ "$pass" -lt 44 ]; then echo "$out" | grep -E '"Action":"fail"|build failed|panic' | head -20; exit 1; fi
