package checks

import (
	"fmt"
	"math"
	"reflect"
	"strings"
	"time"

	"verifmc/fw"

	"github.com/pip-services3-gox/pip-services3-expressions-gox/variants"
)

// C20 — variants hold what they were given: typed access, copies and equality.

type c20Host struct {
	label string
	val   func() interface{}
	typ   variants.VariantType
	check func(v *variants.Variant, host interface{}) string // "" if ok
}

type c20Struct struct{ A int }

func c20Hosts() []c20Host {
	asInt := func(want int) func(*variants.Variant, interface{}) string {
		return func(v *variants.Variant, _ interface{}) string {
			if v.AsInteger() != want {
				return fmt.Sprintf("AsInteger()=%d want %d", v.AsInteger(), want)
			}
			return ""
		}
	}
	asLong := func(want int64) func(*variants.Variant, interface{}) string {
		return func(v *variants.Variant, _ interface{}) string {
			if v.AsLong() != want {
				return fmt.Sprintf("AsLong()=%d want %d", v.AsLong(), want)
			}
			return ""
		}
	}
	hs := []c20Host{}
	for _, x := range []int{0, -1, 7, math.MaxInt64, math.MinInt64} {
		x := x
		hs = append(hs, c20Host{fmt.Sprintf("int(%d)", x), func() interface{} { return x }, variants.Integer, asInt(x)})
	}
	for _, x := range []int32{0, 7, math.MinInt32, math.MaxInt32} {
		x := x
		hs = append(hs, c20Host{fmt.Sprintf("int32(%d)", x), func() interface{} { return x }, variants.Integer, asInt(int(x))})
	}
	for _, x := range []uint{0, 5, math.MaxUint32} {
		x := x
		hs = append(hs, c20Host{fmt.Sprintf("uint(%d)", x), func() interface{} { return x }, variants.Long, asLong(int64(x))})
	}
	for _, x := range []uint32{0, 9, math.MaxUint32} {
		x := x
		hs = append(hs, c20Host{fmt.Sprintf("uint32(%d)", x), func() interface{} { return x }, variants.Long, asLong(int64(x))})
	}
	for _, x := range []int64{0, -3, 1 << 53, math.MaxInt64, math.MinInt64} {
		x := x
		hs = append(hs, c20Host{fmt.Sprintf("int64(%d)", x), func() interface{} { return x }, variants.Long, asLong(x)})
	}
	for _, x := range []float32{0, -1.5, math.MaxFloat32, float32(math.Inf(1))} {
		x := x
		hs = append(hs, c20Host{fmt.Sprintf("float32(%v)", x), func() interface{} { return x }, variants.Float, func(v *variants.Variant, _ interface{}) string {
			if v.AsFloat() != x {
				return fmt.Sprintf("AsFloat()=%v want %v", v.AsFloat(), x)
			}
			return ""
		}})
	}
	for _, x := range []float64{0, 2.5, -math.MaxFloat64, math.Inf(-1), math.NaN()} {
		x := x
		hs = append(hs, c20Host{fmt.Sprintf("float64(%v)", x), func() interface{} { return x }, variants.Double, func(v *variants.Variant, _ interface{}) string {
			if v.AsDouble() != x && !(math.IsNaN(x) && math.IsNaN(v.AsDouble())) {
				return fmt.Sprintf("AsDouble()=%v want %v", v.AsDouble(), x)
			}
			return ""
		}})
	}
	for _, x := range []bool{true, false} {
		x := x
		hs = append(hs, c20Host{fmt.Sprintf("bool(%v)", x), func() interface{} { return x }, variants.Boolean, func(v *variants.Variant, _ interface{}) string {
			if v.AsBoolean() != x {
				return "AsBoolean differs"
			}
			return ""
		}})
	}
	for _, x := range []string{"", "abc", "я\U0001F600"} {
		x := x
		hs = append(hs, c20Host{fmt.Sprintf("string(%q)", x), func() interface{} { return x }, variants.String, func(v *variants.Variant, _ interface{}) string {
			if v.AsString() != x {
				return "AsString differs"
			}
			return ""
		}})
	}
	for _, x := range []time.Time{{}, time.Unix(0, 0).UTC(), time.Date(2020, 2, 29, 13, 14, 15, 123456789, time.FixedZone("X", 3600))} {
		x := x
		hs = append(hs, c20Host{"time.Time(" + x.Format(time.RFC3339Nano) + ")", func() interface{} { return x }, variants.DateTime, func(v *variants.Variant, _ interface{}) string {
			if v.AsDateTime() != x {
				return "AsDateTime differs"
			}
			return ""
		}})
	}
	// values of the running clock: they carry a monotonic reading next to the wall time
	now := time.Now()
	for k, x := range []time.Time{now, now.Add(time.Hour), now.In(time.FixedZone("Y", -7200))} {
		x := x
		hs = append(hs, c20Host{[]string{"time.Now()", "time.Now().Add(1h)", "time.Now().In(zone)"}[k] + " (with its monotonic clock reading)", func() interface{} { return x }, variants.DateTime, func(v *variants.Variant, _ interface{}) string {
			if v.AsDateTime() != x {
				return "AsDateTime differs from the value given (compared with ==; the wall times are Equal: " + fmt.Sprint(v.AsDateTime().Equal(x)) + ")"
			}
			if o, ok := v.AsObject().(time.Time); !ok || o != x {
				return "AsObject differs from the value given"
			}
			return ""
		}})
	}
	for _, x := range []time.Duration{0, time.Millisecond, -time.Hour} {
		x := x
		hs = append(hs, c20Host{fmt.Sprintf("time.Duration(%v)", x), func() interface{} { return x }, variants.TimeSpan, func(v *variants.Variant, _ interface{}) string {
			if v.AsTimeSpan() != x {
				return "AsTimeSpan differs"
			}
			return ""
		}})
	}
	hs = append(hs, c20Host{"nil", func() interface{} { return nil }, variants.Null, func(v *variants.Variant, _ interface{}) string {
		if !v.IsNull() || v.AsObject() != nil {
			return "not null"
		}
		return ""
	}})
	arrCheck := func(v *variants.Variant, host interface{}) string {
		src := host.([]*variants.Variant)
		got := v.AsArray()
		if v.Length() != len(src) || len(got) != len(src) {
			return fmt.Sprintf("Length()=%d want %d", v.Length(), len(src))
		}
		for i := range src {
			if got[i] != src[i] || v.GetByIndex(i) != src[i] {
				return fmt.Sprintf("element %d is not the element given", i)
			}
		}
		// own copy: a later change to the caller's list is invisible
		if len(src) > 0 {
			old := src[0]
			src[0] = variants.VariantFromString("changed-by-caller")
			if v.GetByIndex(0) != old {
				return "a later write to the caller's list is visible in the variant"
			}
		}
		return ""
	}
	hs = append(hs, c20Host{"[]*Variant{}", func() interface{} { return []*variants.Variant{} }, variants.Array, arrCheck})
	hs = append(hs, c20Host{"[]*Variant{1,'a',null}", func() interface{} {
		return []*variants.Variant{variants.VariantFromInteger(1), variants.VariantFromString("a"), variants.EmptyVariant()}
	}, variants.Array, arrCheck})
	// *Variant sources: type and payload are copied
	for _, mk := range []struct {
		l string
		f func() *variants.Variant
	}{
		{"*Variant(Integer 5)", func() *variants.Variant { return variants.VariantFromInteger(5) }},
		{"*Variant(String x)", func() *variants.Variant { return variants.VariantFromString("x") }},
		{"*Variant(Null)", func() *variants.Variant { return variants.EmptyVariant() }},
		{"*Variant(Array[1,2])", func() *variants.Variant {
			return variants.VariantFromArray([]*variants.Variant{variants.VariantFromInteger(1), variants.VariantFromInteger(2)})
		}},
	} {
		mk := mk
		src := mk.f()
		hs = append(hs, c20Host{mk.l, func() interface{} { return mk.f() }, src.Type(), func(v *variants.Variant, host interface{}) string {
			h := host.(*variants.Variant)
			if v.Type() == variants.Array {
				if v.Length() != h.Length() {
					return "length differs from the source variant"
				}
				for i := 0; i < h.Length(); i++ {
					if v.GetByIndex(i) != h.GetByIndex(i) {
						return "elements differ from the source variant"
					}
				}
				// the new variant owns its list
				v.SetByIndex(0, variants.VariantFromString("w"))
				if h.GetByIndex(0).Type() == variants.String {
					return "writing an element of the copy changed the source variant"
				}
				return ""
			}
			if !reflect.DeepEqual(v.AsObject(), h.AsObject()) {
				return "payload differs from the source variant"
			}
			return ""
		}})
	}
	objCheck := func(v *variants.Variant, host interface{}) string {
		if !reflect.DeepEqual(v.AsObject(), host) {
			return "AsObject() is not the value given"
		}
		return ""
	}
	ptr := &c20Struct{3}
	for _, o := range []struct {
		l string
		f func() interface{}
	}{
		{"struct", func() interface{} { return c20Struct{1} }},
		{"*struct", func() interface{} { return ptr }},
		{"map", func() interface{} { return map[string]int{"a": 1} }},
		{"[]int", func() interface{} { return []int{1, 2} }},
		{"int8(3)", func() interface{} { return int8(3) }},
		{"uint64(3)", func() interface{} { return uint64(3) }},
	} {
		hs = append(hs, c20Host{o.l, o.f, variants.Object, objCheck})
	}
	return hs
}

var c20Ctors = []struct {
	name string
	mk   func(x interface{}) *variants.Variant
}{
	{"NewVariant", func(x interface{}) *variants.Variant { return variants.NewVariant(x) }},
	{"VariantFromObject", func(x interface{}) *variants.Variant { return variants.VariantFromObject(x) }},
	{"SetAsObject", func(x interface{}) *variants.Variant {
		v := variants.VariantFromString("previous")
		v.SetAsObject(x)
		return v
	}},
	{"typed", func(x interface{}) *variants.Variant {
		switch t := x.(type) {
		case int:
			return variants.VariantFromInteger(t)
		case int64:
			return variants.VariantFromLong(t)
		case float32:
			return variants.VariantFromFloat(t)
		case float64:
			return variants.VariantFromDouble(t)
		case bool:
			return variants.VariantFromBoolean(t)
		case string:
			return variants.VariantFromString(t)
		case time.Time:
			return variants.VariantFromDateTime(t)
		case time.Duration:
			return variants.VariantFromTimeSpan(t)
		case []*variants.Variant:
			return variants.VariantFromArray(t)
		}
		return nil
	}},
	{"typed-setter", func(x interface{}) *variants.Variant {
		v := variants.VariantFromString("previous")
		switch t := x.(type) {
		case int:
			v.SetAsInteger(t)
		case int64:
			v.SetAsLong(t)
		case float32:
			v.SetAsFloat(t)
		case float64:
			v.SetAsDouble(t)
		case bool:
			v.SetAsBoolean(t)
		case string:
			v.SetAsString(t)
		case time.Time:
			v.SetAsDateTime(t)
		case time.Duration:
			v.SetAsTimeSpan(t)
		case []*variants.Variant:
			v.SetAsArray(t)
		default:
			return nil
		}
		return v
	}},
}

func c20HostRun(c *fw.Ctx, hosts []c20Host, i int64) {
	h := hosts[int(i)/len(c20Ctors)]
	ct := c20Ctors[int(i)%len(c20Ctors)]
	host := h.val()
	var v *variants.Variant
	msg := ""
	pv := fw.Try(func() {
		v = ct.mk(host)
		if v == nil {
			return
		}
		if v.Type() != h.typ {
			msg = fmt.Sprintf("Type()=%d want %d", v.Type(), h.typ)
			return
		}
		msg = h.check(v, host)
	})
	if v == nil && pv == nil {
		c.Outcome("constructor-not-applicable")
		return
	}
	c.Eval(1)
	c.Nontrivial()
	c.Outcome(fmt.Sprintf("type=%d", h.typ))
	if pv != nil {
		c.Violation("host-value-panic", "%s(%s): panic %s", ct.name, h.label, panicShort(pv))
	} else if msg != "" {
		sig := "host-value-mapping"
		if strings.Contains(msg, "caller") || strings.Contains(msg, "source variant") {
			sig = "list-not-copied"
		}
		c.Violation(sig, "%s(%s): %s", ct.name, h.label, msg)
	}
}

// ---- equality over pool x pool

func c20EqPool() []poolVal {
	p := append([]poolVal{}, valuePool("thorough")...)
	p = append(p,
		poolVal{"Object(map)", func() *variants.Variant { return variants.VariantFromObject(map[string]int{"a": 1}) }},
		poolVal{"Object([]int)", func() *variants.Variant { return variants.VariantFromObject([]int{1}) }},
		poolVal{"Array[Array[1]]", func() *variants.Variant {
			return variants.VariantFromArray([]*variants.Variant{variants.VariantFromArray([]*variants.Variant{variants.VariantFromInteger(1)})})
		}},
		poolVal{"Array[Array[2]]", func() *variants.Variant {
			return variants.VariantFromArray([]*variants.Variant{variants.VariantFromArray([]*variants.Variant{variants.VariantFromInteger(2)})})
		}},
	)
	// payloads of two DIFFERENT host types that print the same type name, one comparable, one not
	p = append(p, c20SameNameA(), c20SameNameB(), c20SameNameA2())
	// nested lists whose rows are one shared variant object / distinct but equal / different in a later row
	row := func(xs ...int) *variants.Variant {
		r := []*variants.Variant{}
		for _, x := range xs {
			r = append(r, variants.VariantFromInteger(x))
		}
		return variants.VariantFromArray(r)
	}
	p = append(p,
		poolVal{"Array[R,R] (R=[1,2], one object twice)", func() *variants.Variant { r := row(1, 2); return variants.VariantFromArray([]*variants.Variant{r, r}) }},
		poolVal{"Array[[1,2],[1,2]]", func() *variants.Variant { return variants.VariantFromArray([]*variants.Variant{row(1, 2), row(1, 2)}) }},
		poolVal{"Array[[1,2],[1,3]]", func() *variants.Variant { return variants.VariantFromArray([]*variants.Variant{row(1, 2), row(1, 3)}) }},
		poolVal{"Array[R,[0],R,R] (R=[1,2])", func() *variants.Variant {
			r := row(1, 2)
			return variants.VariantFromArray([]*variants.Variant{r, row(0), r, r})
		}},
		poolVal{"Array[[1,2],[0],[1,2],[2,1]]", func() *variants.Variant {
			return variants.VariantFromArray([]*variants.Variant{row(1, 2), row(0), row(1, 2), row(2, 1)})
		}},
		poolVal{"Array[S,S] (S=[[1],[1]] sharing its row too)", func() *variants.Variant {
			r := row(1)
			s := variants.VariantFromArray([]*variants.Variant{r, r})
			return variants.VariantFromArray([]*variants.Variant{s, s})
		}},
		poolVal{"Array[[[1],[1]],[[1],[2]]]", func() *variants.Variant {
			return variants.VariantFromArray([]*variants.Variant{variants.VariantFromArray([]*variants.Variant{row(1), row(1)}), variants.VariantFromArray([]*variants.Variant{row(1), row(2)})})
		}},
	)
	// lists with absent (nil) element slots: a slot both lists leave empty says nothing about the rest
	in := func(x int) *variants.Variant { return variants.VariantFromInteger(x) }
	for _, e := range []struct {
		label string
		mk    func() []*variants.Variant
	}{
		{"Array[nil]", func() []*variants.Variant { return []*variants.Variant{nil} }},
		{"Array[nil,1]", func() []*variants.Variant { return []*variants.Variant{nil, in(1)} }},
		{"Array[nil,2]", func() []*variants.Variant { return []*variants.Variant{nil, in(2)} }},
		{"Array[1,nil,3]", func() []*variants.Variant { return []*variants.Variant{in(1), nil, in(3)} }},
		{"Array[1,nil,4]", func() []*variants.Variant { return []*variants.Variant{in(1), nil, in(4)} }},
		{"Array[1,null,3]", func() []*variants.Variant { return []*variants.Variant{in(1), variants.EmptyVariant(), in(3)} }},
	} {
		e := e
		p = append(p, poolVal{e.label, func() *variants.Variant { return variants.VariantFromArray(e.mk()) }})
	}
	return p
}

func c20SameNameA() poolVal {
	type Item struct {
		N int
		P *int
	}
	n := 1
	return poolVal{"Object(local type Item#1 {N, *P})", func() *variants.Variant { return variants.VariantFromObject(Item{1, &n}) }}
}

func c20SameNameA2() poolVal {
	type Item struct {
		N int
		P *int
	}
	n := 1
	return poolVal{"Object(local type Item#1b {N, other *P to an equal value})", func() *variants.Variant { return variants.VariantFromObject(Item{1, &n}) }}
}

func c20SameNameB() poolVal {
	type Item struct {
		N  int
		Xs []int
	}
	return poolVal{"Object(local type Item#2 {N, []Xs})", func() *variants.Variant { return variants.VariantFromObject(Item{1, []int{1}}) }}
}

// refEquals: "" unknown (either accepted), "t", "f".
func refEquals(a, b *variants.Variant) string {
	if a == nil || b == nil {
		// absent element slots: equal only to absent slots
		if a == b {
			return "t"
		}
		return "f"
	}
	if a.Type() == variants.Null || b.Type() == variants.Null {
		if a.Type() == b.Type() {
			return "t"
		}
		return "f"
	}
	if a.Type() != b.Type() {
		return "f"
	}
	switch a.Type() {
	case variants.Array:
		x, y := a.AsArray(), b.AsArray()
		if len(x) != len(y) {
			return "f"
		}
		res := "t"
		for i := range x {
			switch refEquals(x[i], y[i]) {
			case "f":
				return "f"
			case "":
				res = ""
			}
		}
		return res
	case variants.Float:
		if a.AsFloat() == b.AsFloat() {
			return "t"
		}
		return "f"
	case variants.Double:
		if a.AsDouble() == b.AsDouble() {
			return "t"
		}
		return "f"
	case variants.DateTime:
		if !a.AsDateTime().Equal(b.AsDateTime()) {
			return "f"
		}
		if a.AsDateTime() == b.AsDateTime() {
			return "t"
		}
		return "" // same instant, different zone/monotonic reading: unspecified
	case variants.Object:
		x, y := a.AsObject(), b.AsObject()
		if reflect.TypeOf(x) != reflect.TypeOf(y) {
			return "f"
		}
		if reflect.TypeOf(x).Comparable() {
			if x == y {
				return "t"
			}
			return "f"
		}
		return ""
	}
	if a.AsObject() == b.AsObject() {
		return "t"
	}
	return "f"
}

func c20EqRun(c *fw.Ctx, pool []poolVal, i int64) {
	a, b := pool[int(i)/len(pool)], pool[int(i)%len(pool)]
	va, vb := a.mk(), b.mk()
	var ab, ba bool
	pv := fw.Try(func() { ab = va.Equals(vb); ba = vb.Equals(va) })
	c.Eval(2)
	if pv != nil {
		sig := "equals-panics"
		if va.Type() == variants.Array || vb.Type() == variants.Array {
			sig = "equals-panics-on-arrays"
		} else if va.Type() == variants.Object {
			sig = "equals-panics-on-objects"
		}
		c.Violation(sig, "%s.Equals(%s): panic %s", a.label, b.label, panicShort(pv))
		return
	}
	if ab != ba {
		c.Violation("equals-asymmetric", "%s.Equals(%s)=%v but the converse is %v", a.label, b.label, ab, ba)
	}
	switch refEquals(va, vb) {
	case "t":
		if !ab {
			c.Violation("equals-false-for-equal-values", "%s.Equals(%s)=false", a.label, b.label)
		}
	case "f":
		if ab {
			c.Violation("equals-true-for-different-values", "%s.Equals(%s)=true", a.label, b.label)
		}
	}
	// clone equals original; mutating the clone never changes the original
	if int(i)%len(pool) == 0 {
		var cl *variants.Variant
		var eq bool
		pv := fw.Try(func() { cl = va.Clone(); eq = cl.Equals(va) && va.Equals(cl) })
		isNaN := (va.Type() == variants.Double && math.IsNaN(va.AsDouble())) || (va.Type() == variants.Float && va.AsFloat() != va.AsFloat())
		if pv != nil {
			c.Violation("clone-equals-panics", "%s: Clone().Equals(original) panics: %s", a.label, panicShort(pv))
		} else if !eq && !isNaN && refEquals(va, va) == "t" {
			c.Violation("clone-not-equal", "%s: a clone does not equal its original", a.label)
		} else if refEquals(va, va) == "f" {
			// not-a-number, also as an element at any depth, equals nothing: neither its clone (which may
			// hold the very same element objects) nor itself
			var e1, e2, e3 bool
			fw.Try(func() { e1, e2, e3 = cl.Equals(va), va.Equals(cl), va.Equals(va) })
			if e1 || e2 || e3 {
				c.Violation("equals-true-with-nan-inside", "%s: clone.Equals(original)=%v original.Equals(clone)=%v original.Equals(original)=%v; not-a-number equals nothing", a.label, e1, e2, e3)
			}
		}
	}
	c.Outcome(fmt.Sprintf("%v", ab))
	if va.Type() == vb.Type() {
		c.Nontrivial()
	}
}

// ---- operation histories on two variants and a caller-owned list

type c20Model struct {
	vT, wT   int   // 0 null, 1 integer, 2 array
	vE, wE   []int // element ids (0 = null element)
	vI, wI   int
	s        []int
	shared   bool // storage possibly shared after Assign of an array
	vU, wU   bool // contents unknown (after a write through possibly shared storage)
	nextElem int
}

var c20Ops = []string{"v=FromArray(s)", "v.SetAsArray(s)", "s[0]=x", "v.SetByIndex(0,x)", "v.SetByIndex(len,x)", "v.SetByIndex(len+2,x)", "v.SetLength(len+1)",
	"w=v.Clone()", "w.SetByIndex(0,x)", "v.Assign(w)", "v.Clear()", "v.SetAsInteger(1)", "w.SetLength(len+2)", "w=NewVariant(v)", "v[first null filler].SetAsInteger(7)", "s=s[:0]", "s=append(s,x)"}

func c20Hist(h []int) string {
	p := []string{}
	for _, o := range h {
		p = append(p, c20Ops[o])
	}
	return strings.Join(p, "; ")
}

func c20SeqRun(c *fw.Ctx, h []int) {
	elems := map[int]*variants.Variant{0: nil}
	newElem := func(m *c20Model) (int, *variants.Variant) {
		m.nextElem++
		e := variants.VariantFromInteger(100 + m.nextElem)
		elems[m.nextElem] = e
		return m.nextElem, e
	}
	m := &c20Model{}
	// null fillers created by growth have their own identity (negative ids); fillVal is their value (0 = Null)
	fillVal := map[int]int{}
	fillAlt := map[int]map[string]bool{} // filler id -> holders ("v"/"w") for which both Null and 7 are acceptable
	nextFill := 0
	newFill := func() int {
		nextFill--
		fillVal[nextFill] = 0
		return nextFill
	}
	v, w := variants.EmptyVariant(), variants.EmptyVariant()
	s := []*variants.Variant{}
	for k := 0; k < 2; k++ {
		id, e := newElem(m)
		m.s = append(m.s, id)
		s = append(s, e)
	}
	cp := func(x []int) []int { return append([]int{}, x...) }
	observe := func(step int) bool {
		chk := func(name string, x *variants.Variant, t int, e []int, iv int, unknown bool) string {
			switch t {
			case 0:
				if x.Type() != variants.Null {
					return fmt.Sprintf("%s.Type()=%d want Null", name, x.Type())
				}
			case 1:
				if x.Type() != variants.Integer || x.AsInteger() != iv {
					return fmt.Sprintf("%s is not Integer %d", name, iv)
				}
			case 2:
				if x.Type() != variants.Array {
					return fmt.Sprintf("%s.Type()=%d want Array", name, x.Type())
				}
				if unknown {
					return ""
				}
				if x.Length() != len(e) {
					return fmt.Sprintf("%s.Length()=%d want %d", name, x.Length(), len(e))
				}
				for i, id := range e {
					g := x.GetByIndex(i)
					if id <= 0 {
						if alt, ok := fillAlt[id]; ok && alt[name] {
							// this holder did not write the filler itself: whether it shares the element object with the
							// holder that did (and sees the 7) or has a copy of its own (still Null) is not specified
							if g == nil || !(g.Type() == variants.Null || (g.Type() == variants.Integer && g.AsInteger() == 7)) {
								return fmt.Sprintf("%s[%d] should be a filler holding Null or 7 but is %s", name, i, variantStr(g))
							}
						} else if fillVal[id] == 0 {
							if g == nil || g.Type() != variants.Null {
								return fmt.Sprintf("%s[%d] should be a Null filler but is %s", name, i, variantStr(g))
							}
						} else if g == nil || g.Type() != variants.Integer || g.AsInteger() != fillVal[id] {
							return fmt.Sprintf("%s[%d] should be the filler that was set to %d", name, i, fillVal[id])
						}
					} else if g == nil || variantStr(g) != variantStr(elems[id]) {
						// (compared by value: whether a copy of a list shares the element OBJECTS is not specified)
						gs := "<nil>"
						if g != nil {
							gs = variantStr(g)
						}
						return fmt.Sprintf("%s[%d]=%s want element %s", name, i, gs, variantStr(elems[id]))
					}
				}
			}
			return ""
		}
		msg := ""
		pv := fw.Try(func() {
			msg = chk("v", v, m.vT, m.vE, m.vI, m.vU)
			if msg == "" {
				msg = chk("w", w, m.wT, m.wE, m.wI, m.wU)
			}
		})
		if pv != nil {
			msg = "panic " + panicShort(pv)
		}
		if msg != "" {
			sig := "variant-history-model"
			last := c20Ops[h[step]]
			switch {
			case strings.HasPrefix(last, "w.Set") && strings.HasPrefix(msg, "v"):
				sig = "mutating-clone-changes-original"
			case strings.HasPrefix(last, "v.Set") && strings.HasPrefix(msg, "w"):
				sig = "mutating-original-changes-clone"
			case last == "s[0]=x":
				sig = "caller-list-write-visible"
			case strings.Contains(last, "SetByIndex(len"):
				sig = "growth-not-null-filled"
			}
			c.Violation(sig, "after [%s]: %s", c20Hist(h[:step+1]), msg)
			return false
		}
		return true
	}
	for step, op := range h {
		applicable := true
		pv := fw.Try(func() {
			switch op {
			case 0:
				v = variants.VariantFromArray(s)
				m.vT, m.vE, m.vU = 2, cp(m.s), false
				m.shared = false
			case 1:
				v.SetAsArray(s)
				m.vT, m.vE, m.vU = 2, cp(m.s), false
				m.shared = false
			case 2:
				if len(s) == 0 {
					applicable = false
					return
				}
				id, e := newElem(m)
				s[0] = e
				m.s[0] = id
			case 3, 4, 5:
				if m.vT != 2 || m.vU {
					applicable = false
					return
				}
				idx := map[int]int{3: 0, 4: len(m.vE), 5: len(m.vE) + 2}[op]
				id, e := newElem(m)
				v.SetByIndex(idx, e)
				for len(m.vE) <= idx {
					m.vE = append(m.vE, newFill())
				}
				m.vE[idx] = id
				if m.shared {
					m.wU = true
				}
			case 6:
				if m.vT != 2 || m.vU {
					applicable = false
					return
				}
				v.SetLength(len(m.vE) + 1)
				m.vE = append(m.vE, newFill())
				if m.shared {
					m.wU = true
				}
			case 7, 13:
				if op == 7 {
					w = v.Clone()
				} else {
					w = variants.NewVariant(v)
				}
				m.wT, m.wE, m.wI, m.wU = m.vT, cp(m.vE), m.vI, m.vU
				m.shared = false
				for _, id := range m.vE { // the copy holds what v holds: ambiguous exactly where v is
					if fillAlt[id] != nil {
						fillAlt[id]["w"] = fillAlt[id]["v"]
					}
				}
				if !m.vU {
					var eq bool
					if pv := fw.Try(func() { eq = w.Equals(v) && v.Equals(w) }); pv != nil || !eq {
						c.Violation("clone-not-equal-at-creation", "after [%s]: clone.Equals(original) = %v (panic=%v)", c20Hist(h[:step+1]), eq, pv)
					}
				}
			case 8:
				if m.wT != 2 || m.wU {
					applicable = false
					return
				}
				id, e := newElem(m)
				w.SetByIndex(0, e)
				if len(m.wE) == 0 {
					m.wE = append(m.wE, newFill())
				}
				m.wE[0] = id
				if m.shared {
					m.vU = true
				}
			case 9:
				v.Assign(w)
				m.vT, m.vE, m.vI, m.vU = m.wT, cp(m.wE), m.wI, m.wU
				for _, id := range m.wE {
					if fillAlt[id] != nil {
						fillAlt[id]["v"] = fillAlt[id]["w"]
					}
				}
				if m.wT == 2 {
					m.shared = true // storage may or may not be shared: not predicted
				}
			case 10:
				v.Clear()
				m.vT, m.vE, m.vU = 0, nil, false
				m.shared = false
			case 11:
				v.SetAsInteger(1)
				m.vT, m.vE, m.vI, m.vU = 1, nil, 1, false
				m.shared = false
			case 14:
				// mutate a null filler element of v in place: no other filler, in any variant, may change
				if m.vT != 2 || m.vU {
					applicable = false
					return
				}
				k := -1
				for i, id := range m.vE {
					if id < 0 && fillVal[id] == 0 {
						k = i
						break
					}
				}
				if k < 0 {
					applicable = false
					return
				}
				v.GetByIndex(k).SetAsInteger(7)
				fillVal[m.vE[k]] = 7
				for _, id := range m.wE {
					if id == m.vE[k] {
						if fillAlt[id] == nil {
							fillAlt[id] = map[string]bool{}
						}
						fillAlt[id]["w"] = true
					}
				}
			case 15:
				// the caller truncates its list but keeps the backing array
				s = s[:0]
				m.s = m.s[:0]
			case 16:
				id, e := newElem(m)
				s = append(s, e)
				m.s = append(m.s, id)
			case 12:
				if m.wT != 2 || m.wU {
					applicable = false
					return
				}
				w.SetLength(len(m.wE) + 2)
				m.wE = append(m.wE, newFill(), newFill())
				if m.shared {
					m.vU = true
				}
			}
		})
		if !applicable {
			c.Outcome("history-not-applicable")
			return
		}
		c.Eval(1)
		if pv != nil {
			c.Violation("variant-op-panics", "after [%s]: %s panics: %s", c20Hist(h[:step]), c20Ops[op], panicShort(pv))
			return
		}
		if !observe(step) {
			return
		}
	}
	if variants.Empty == nil || variants.Empty.Type() != variants.Null {
		c.Violation("shared-empty-variant-modified", "after [%s]: the package-level variants.Empty is now %s", c20Hist(h), variantStr(variants.Empty))
		variants.Empty = variants.EmptyVariant()
	}
	c.Count("transitions", int64(len(h)))
	c.Count("states", 1)
	if len(h) >= 2 {
		c.Nontrivial()
	}
	c.Outcome(fmt.Sprintf("v=%d,w=%d,shared=%v", m.vT, m.wT, m.shared))
}

func init() {
	fw.Register(&fw.Check{
		ID:    "C20",
		Level: "model_checking",
		Rule: "(a) every host value of every listed Go type with boundaries x 5 ways of building a variant: reported type and typed accessor = reference mapping, lists copied; (b) Equals over pool x pool: no panic, symmetric, agrees with a structural reference where that is defined, clone equals original; " +
			"(c) every history up to the depth bound over 17 operations on two variants and one caller-owned list (construct/set from list, caller write, indexed writes at 0/len/len+2, SetLength, Clone, NewVariant(v), Assign, Clear, SetAsInteger, in-place mutation of a null filler element, truncating and appending to the caller's list), replayed on fresh objects against a value model in which every variant owns its element list; non-trivial = applicable histories of >=2 steps / same-type pairs",
		Assume: []string{"after Assign of an array the model does not predict whether storage is shared (accepted either way)", "Equals on date-times denoting the same instant in different zones and on uncomparable object payloads is unspecified (only symmetry and no panic are demanded)"},
		Spaces: func(tier string) []fw.Space {
			hosts := c20Hosts()
			pool := c20EqPool()
			depth := 4
			if tier == "thorough" {
				depth = 5
			}
			k := len(c20Ops)
			return []fw.Space{
				{Name: "host-values", N: int64(len(hosts) * len(c20Ctors)), Run: func(c *fw.Ctx, i int64) { c20HostRun(c, hosts, i) },
					Repr: func(i int64) string {
						return fmt.Sprintf("%s(%s)", c20Ctors[int(i)%len(c20Ctors)].name, hosts[int(i)/len(c20Ctors)].label)
					}},
				{Name: "equals", N: int64(len(pool) * len(pool)), Run: func(c *fw.Ctx, i int64) { c20EqRun(c, pool, i) },
					Repr: func(i int64) string {
						return fmt.Sprintf("%s.Equals(%s)", pool[int(i)/len(pool)].label, pool[int(i)%len(pool)].label)
					}},
				{Name: "deep-and-long-arrays", N: int64(len(pumpCounts) * 4), Run: func(c *fw.Ctx, i int64) {
					n := pumpCounts[int(i)/4]
					nest := func(d int, leaf *variants.Variant) *variants.Variant {
						v := leaf
						for k := 0; k < d; k++ {
							v = variants.VariantFromArray([]*variants.Variant{v})
						}
						return v
					}
					long := func(n int, last int) *variants.Variant {
						xs := make([]*variants.Variant, n)
						for k := range xs {
							xs[k] = variants.VariantFromInteger(k)
						}
						xs[n-1] = variants.VariantFromInteger(last)
						return variants.VariantFromArray(xs)
					}
					var a, b, b2 *variants.Variant
					switch i % 4 {
					case 0: // nested n deep, same leaf / different leaf
						a, b, b2 = nest(n, variants.VariantFromInteger(1)), nest(n, variants.VariantFromInteger(1)), nest(n, variants.VariantFromInteger(2))
					case 1: // nested n deep, leaf type differs
						a, b, b2 = nest(n, variants.VariantFromInteger(1)), nest(n, variants.VariantFromInteger(1)), nest(n, variants.VariantFromString("1"))
					case 2: // n elements, last differs
						a, b, b2 = long(n, 7), long(n, 7), long(n, 8)
					case 3: // growth to index n, clone, length
						a = variants.VariantFromArray(nil)
						a.SetByIndex(n, variants.VariantFromInteger(5))
						b = a.Clone()
						b2 = a.Clone()
						b2.SetByIndex(n/2, variants.VariantFromInteger(6))
						if a.Length() != n+1 || a.GetByIndex(n).AsInteger() != 5 || !a.GetByIndex(n/2).IsNull() {
							c.Violation("growth-not-null-filled", "SetByIndex(%d) on an empty array: length %d", n, a.Length())
						}
					}
					var eq1, eq2, eq3 bool
					pv := fw.Try(func() { eq1, eq2, eq3 = a.Equals(b), a.Equals(b2), b2.Equals(a) })
					c.Eval(3)
					c.Nontrivial()
					if pv != nil || !eq1 || eq2 || eq3 {
						c.Violation("equals-on-deep-or-long-arrays", "shape %d size %d: equal arrays compare %v, arrays differing at the deepest/last element compare %v / %v (panic %v)", i%4, n, eq1, eq2, eq3, pv)
					}
				}, Repr: func(i int64) string { return fmt.Sprintf("array shape %d of size/depth %d", i%4, pumpCounts[int(i)/4]) }},
				{Name: "histories", N: countStrings(k, depth), Run: func(c *fw.Ctx, i int64) { c20SeqRun(c, seqByIndex(k, i)) },
					Repr: func(i int64) string { return "[" + c20Hist(seqByIndex(k, i)) + "]" }},
			}
		},
		Bounds: func(tier string) string {
			if tier == "thorough" {
				return "all operation histories of length<=5 over 17 operations; full pool x pool equality matrix"
			}
			return "all operation histories of length<=4 over 17 operations; full pool x pool equality matrix"
		},
	})
}
