#!/bin/bash
# usage: seed_regress.sh [tier] [seed-dir-name...]
# Re-applies every stored seeded change (default: all under /verif/seeded) to a scratch worktree of
# /repo HEAD and runs the seed's own property check against it. Writes /verif/seeded/STATUS.tsv:
# seed <tab> check <tab> exit <tab> signatures. A seed whose own check exits 0 is listed as MISSED.
set -u
TIER=${1:-quick}; shift || true
export GOFLAGS=-mod=mod GOPROXY=off GOSUMDB=off GOTOOLCHAIN=local TZ=UTC
cd /verif/seeded || exit 2
SEEDS=("$@"); [ ${#SEEDS[@]} -eq 0 ] && SEEDS=($(ls -d */ | tr -d /))
STATUS=/verif/seeded/STATUS.tsv; TMPS=$(mktemp)
for s in "${SEEDS[@]}"; do
  [ -f "$s/patch.diff" ] || continue
  id=${s%%-*}
  WT=$(mktemp -d /tmp/sr-XXXXXX); OUT=$(mktemp -d /tmp/sro-XXXXXX); rmdir "$WT"
  git -C /repo worktree add -q --detach "$WT" HEAD || exit 2
  if git -C "$WT" apply "/verif/seeded/$s/patch.diff" 2>/dev/null; then
    VERIF_REPO="$WT" VERIF_OUT="$OUT" /verif/run_check.sh "$id" "$TIER" > "$OUT/log" 2>&1; rc=$?
    sigs=$(grep "^  \[$id\]" "$OUT/log" | grep -v UNREPRODUCED | sed "s/^  \[$id\] //" | tr '\n' ';' | cut -c1-300)
  else rc=-1; sigs="patch does not apply"; fi
  st=REPORTED; [ "$rc" != 1 ] && st=MISSED
  printf "%s\t%s\t%s\t%s\t%s\n" "$s" "$id" "$st" "$rc" "$sigs" | tee -a "$TMPS"
  git -C /repo worktree remove --force "$WT" 2>/dev/null; rm -rf "$WT" "$OUT"
done
git -C /repo worktree prune
if [ $# -eq 0 ]; then sort "$TMPS" > "$STATUS"; fi
rm -f "$TMPS"
