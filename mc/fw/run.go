package fw

import (
	"bufio"
	"bytes"
	"encoding/json"
	"fmt"
	"hash/fnv"
	"os"
	"os/exec"
	"path/filepath"
	"runtime"
	"sort"
	"strconv"
	"strings"
	"sync"
	"sync/atomic"
	"time"
)

// ---------------------------------------------------------------- worker side

type msg struct {
	T     string `json:"t"` // prog | at | hang | done
	Space string `json:"space,omitempty"`
	I     int64  `json:"i,omitempty"`
	Stats *Stats `json:"stats,omitempty"`
}

const exitHang = 3

// BetweenCases, if set, runs at the start of every worker process and before every
// betweenEvery-th case of a shard.
var BetweenCases func()

const betweenEvery = 2039

// WorkerMain runs shard `shard` of `n` of check id, starting at (startSpace,startIndex).
// only>=0 runs exactly that one case of startSpace.
func WorkerMain(id, tier string, shard, n int, startSpace string, startIndex int64, only bool, careful bool, verbose bool, skip map[string]bool, window int64) int {
	ck := Lookup(id)
	if ck == nil {
		fmt.Fprintln(os.Stderr, "unknown check", id)
		return 2
	}
	spaces := ck.Spaces(tier)
	out := bufio.NewWriter(os.Stdout)
	var outMu sync.Mutex
	emit := func(m msg) {
		b, _ := json.Marshal(m)
		outMu.Lock()
		out.Write(b)
		out.WriteByte('\n')
		out.Flush()
		outMu.Unlock()
	}
	stats := NewStats()
	ctx := &Ctx{stats: stats, Tier: tier, Verbose: verbose}

	var curSpace atomic.Value
	var curIndex, caseSeq int64
	var timeoutNs int64
	curSpace.Store("")
	done := make(chan struct{})
	go func() { // watchdog
		lastSeq, lastChange := int64(-1), time.Now()
		t := time.NewTicker(250 * time.Millisecond)
		defer t.Stop()
		for {
			select {
			case <-done:
				return
			case <-t.C:
				s := atomic.LoadInt64(&caseSeq)
				if s != lastSeq {
					lastSeq, lastChange = s, time.Now()
					continue
				}
				if time.Since(lastChange) > time.Duration(atomic.LoadInt64(&timeoutNs)) {
					emit(msg{T: "hang", Space: curSpace.Load().(string), I: atomic.LoadInt64(&curIndex), Stats: nil})
					os.Exit(exitHang)
				}
			}
		}
	}()

	// objects that belong to no case are created and customised before anything else runs and again
	// every betweenEvery-th case of the shard (checks/decoy.go); deterministic in the case index
	if BetweenCases != nil && !ck.LateNeighbour {
		BetweenCases()
		stats.Counters["neighbour_rounds"]++
	}
	started := startSpace == ""
	fullPrefix := only && window < 0
	if fullPrefix {
		// replay everything the original worker of this shard ran before the case: all earlier
		// spaces and the earlier cases of this space (shard = startIndex mod n)
		started = true
		shard = int(startIndex % int64(n))
	}
	lastProg := time.Now()
	carefulLeft := int64(0)
	if careful {
		carefulLeft = 400000
	}
	for si := range spaces {
		sp := &spaces[si]
		spaceOrder[sp.Name] = si
		begin := int64(0)
		if !started {
			if sp.Name != startSpace {
				continue
			}
			started = true
			begin = startIndex
		}
		to := sp.Timeout
		if to == 0 {
			to = 20 * time.Second
		}
		atomic.StoreInt64(&timeoutNs, int64(to))
		curSpace.Store(sp.Name)
		ctx.space = sp
		if fullPrefix {
			last := sp.N - 1
			if sp.Name == startSpace {
				last = startIndex
			}
			for j := int64(shard); j <= last; j += int64(n) {
				ctx.index = j
				atomic.StoreInt64(&curIndex, j)
				atomic.AddInt64(&caseSeq, 1)
				if BetweenCases != nil && (j/int64(n))%betweenEvery == betweenEvery-1 {
					BetweenCases()
				}
				sp.Run(ctx, j)
			}
			if sp.Name == startSpace {
				break
			}
			continue
		}
		if only {
			// replay one case; with window>0 the `window` cases that precede it in its shard
			// (stride n) are run first, so that state shared between cases of one worker is rebuilt
			for j := startIndex - window*int64(n); j <= startIndex; j += int64(n) {
				if j < 0 {
					continue
				}
				ctx.index = j
				atomic.StoreInt64(&curIndex, j)
				atomic.AddInt64(&caseSeq, 1)
				if BetweenCases != nil && (j/int64(n))%betweenEvery == betweenEvery-1 {
					BetweenCases()
				}
				sp.Run(ctx, j)
			}
			break
		}
		// first index >= begin congruent to shard mod n
		i := begin
		if r := i % int64(n); r != int64(shard) {
			i += (int64(shard) - r + int64(n)) % int64(n)
		}
		for ; i < sp.N; i += int64(n) {
			if len(skip) > 0 && skip[sp.Name+"#"+strconv.FormatInt(i, 10)] {
				continue
			}
			ctx.index = i
			atomic.StoreInt64(&curIndex, i)
			atomic.AddInt64(&caseSeq, 1)
			if BetweenCases != nil && (i/int64(n))%betweenEvery == betweenEvery-1 {
				BetweenCases()
				stats.Counters["neighbour_rounds"]++
			}
			if carefulLeft > 0 {
				carefulLeft--
				emit(msg{T: "at", Space: sp.Name, I: i})
			}
			sp.Run(ctx, i)
			stats.Counters["cases"]++
			if i%7919 == 0 && len(stats.Samples) < 4 {
				stats.Samples = append(stats.Samples, ctx.caseRepr())
			}
			if (i/int64(n))%256 == 0 && time.Since(lastProg) > 500*time.Millisecond {
				lastProg = time.Now()
				emit(msg{T: "prog", Space: sp.Name, I: i + int64(n), Stats: stats})
			}
		}
	}
	close(done)
	emit(msg{T: "done", Stats: stats})
	return 0
}

// ---------------------------------------------------------------- parent side

type shardState struct {
	space   string
	index   int64 // resume point (next case to run); stats cover everything before it
	stats   *Stats
	careful bool
	skip    []string // "space#index" of cases that hung or crashed
}

type abnormal struct {
	Kind  string `json:"kind"` // hang | crash
	Space string `json:"space"`
	Index int64  `json:"index"`
	Info  string `json:"info"`
}

// Evidence file layout (EVIDENCE.schema.json).
type Evidence struct {
	PropertyID  string                 `json:"property_id"`
	Tier        string                 `json:"tier"`
	Seed        int                    `json:"seed"`
	Level       string                 `json:"level"`
	Coverage    map[string]interface{} `json:"coverage"`
	Assumptions []string               `json:"assumptions"`
	WallS       float64                `json:"wall_s"`
	Violations  int                    `json:"violations"`
}

type KnownFindings struct {
	Known []struct {
		Property  string `json:"property"`
		Signature string `json:"signature"`
		Witness   string `json:"witness"` // exact case string that fails (the minimal one); other witnesses of the same signature are listed in Also
		What      string `json:"what"`
	} `json:"known"`
	Fixed []struct {
		Property string `json:"property"`
		Commit   string `json:"commit"`
		What     string `json:"what"`
	} `json:"fixed"`
}

// outDir is where evidence and replays are written (VERIF_OUT overrides, used
// when the checks are pointed at a scratch copy of the repository).
func outDir() string {
	if d := os.Getenv("VERIF_OUT"); d != "" {
		return d
	}
	return verifDir()
}

func verifDir() string {
	if d := os.Getenv("VERIF_DIR"); d != "" {
		return d
	}
	return "/verif"
}

// RunMain is the parent: shards the check over worker subprocesses.
func RunMain(id, tier string) int {
	t0 := time.Now()
	ck := Lookup(id)
	if ck == nil {
		fmt.Fprintln(os.Stderr, "unknown check", id)
		return 2
	}
	n := runtime.NumCPU()
	if v := os.Getenv("VERIF_WORKERS"); v != "" {
		if k, err := strconv.Atoi(v); err == nil && k > 0 {
			n = k
		}
	}
	seed, _ := strconv.Atoi(os.Getenv("VERIF_SEED"))
	spaces := ck.Spaces(tier)
	var total int64
	spaceN := map[string]int64{}
	for i, sp := range spaces {
		total += sp.N
		spaceN[sp.Name] = sp.N
		spaceOrder[sp.Name] = i
	}
	if total < int64(n) {
		n = int(total)
		if n < 1 {
			n = 1
		}
	}
	exe, _ := os.Executable()
	agg := NewStats()
	var aggMu sync.Mutex
	var abn []abnormal
	var wg sync.WaitGroup
	for sh := 0; sh < n; sh++ {
		wg.Add(1)
		go func(sh int) {
			defer wg.Done()
			st := &shardState{}
			for attempt := 0; attempt < 200; attempt++ {
				finished, ab := runWorkerOnce(exe, id, tier, sh, n, st)
				if ab != nil {
					aggMu.Lock()
					abn = append(abn, *ab)
					aggMu.Unlock()
				}
				if finished {
					break
				}
			}
			aggMu.Lock()
			agg.Merge(st.stats)
			aggMu.Unlock()
		}(sh)
	}
	wg.Wait()

	// abnormal terminations (hang / crash) become violations after re-verification
	for _, a := range abn {
		confirmed := 0
		for k := 0; k < 2; k++ {
			if kind, _ := runOnly(exe, id, tier, a.Space, a.Index); kind == a.Kind {
				confirmed++
			}
		}
		sig := a.Kind + ":" + a.Space
		if confirmed == 2 {
			v := &Violation{Sig: sig, Space: a.Space, Index: a.Index, Case: reprOf(spaces, a.Space, a.Index), Detail: a.Kind + " (reproduced 3x): " + a.Info, Count: 1}
			agg.Merge(&Stats{Viol: map[string]*Violation{sig: v}})
		} else {
			agg.Notes["unreproduced_"+sig] = fmt.Sprintf("%s at %s#%d reproduced %d/2 times; not reported", a.Kind, a.Space, a.Index, confirmed)
		}
	}

	// re-execute each violation witness in a fresh process; it must fail identically
	sigs := []string{}
	for s := range agg.Viol {
		sigs = append(sigs, s)
	}
	sort.Strings(sigs)
	kf := loadKnown()
	replayWindow := map[string]int64{}
	nViol := 0
	os.MkdirAll(filepath.Join(outDir(), "replays", id), 0o755)
	var lines []string
	knownLines := []string{}
	for _, s := range sigs {
		v := agg.Viol[s]
		if !strings.HasPrefix(s, "hang:") && !strings.HasPrefix(s, "crash:") {
			// the witness alone in a fresh process; if the violation depends on state a worker shares
			// between cases, the preceding cases of its shard are replayed as well (growing window)
			ok := false
			for _, w := range []int64{0, 16, 256, 4096, 65536, -1} { // -1: the whole prefix of the shard, earlier spaces included
				good := true
				for k := 0; k < 2 && good; k++ {
					_, st := runOnlyW(exe, id, tier, v.Space, v.Index, w, n)
					if st == nil || st.Viol[s] == nil {
						good = false
					}
				}
				if good {
					ok = true
					replayWindow[s] = w
					break
				}
			}
			if !ok {
				agg.Notes["unreproduced_"+s] = "violation did not reproduce in a fresh process (even with everything its shard ran before it): " + v.Case
				fmt.Printf("  [%s] UNREPRODUCED (not reported) %s\n    case: %s\n    %s\n", id, s, v.Case, v.Detail)
				continue
			}
		}
		// known finding?
		isKnown := false
		for _, k := range kf.Known {
			if k.Property == id && k.Signature == s && (k.Witness == "" || k.Witness == v.Case) {
				isKnown = true
				knownLines = append(knownLines, fmt.Sprintf("KNOWN-FINDING: property=%s %s [%s; witness %s]", id, k.What, s, v.Case))
			}
		}
		if isKnown {
			continue
		}
		nViol++
		path := filepath.Join(outDir(), "replays", id, sanitize(s)+".json")
		rb, _ := json.MarshalIndent(map[string]interface{}{
			"property": id, "tier": tier, "space": v.Space, "index": v.Index, "case": v.Case,
			"signature": s, "detail": v.Detail, "cases_with_signature": v.Count,
			"replay_window": replayWindow[s], "replay_stride": n,
			"replay_cmd": fmt.Sprintf("./run_check.sh replay %s", path),
		}, "", " ")
		os.WriteFile(path, rb, 0o644)
		lines = append(lines, fmt.Sprintf("VIOLATION property=%s replay=%s", id, path))
		fmt.Printf("  [%s] %s\n    case: %s\n    %s  (%d cases)\n", id, s, v.Case, v.Detail, v.Count)
	}
	for _, l := range knownLines {
		fmt.Println(l)
	}
	for _, l := range lines {
		fmt.Println(l)
	}

	// evidence
	wall := time.Since(t0).Seconds()
	cov := map[string]interface{}{}
	for k, v := range agg.Counters {
		cov[k] = v
	}
	evals := agg.Counters["evaluations"]
	if evals == 0 {
		evals = agg.Counters["cases"]
	}
	cov["evaluations"] = evals
	cov["distinct_nontrivial"] = agg.Counters["nontrivial"]
	cov["rule"] = ck.Rule
	samples := []interface{}{}
	for _, s := range agg.Samples {
		samples = append(samples, s)
	}
	if len(samples) == 0 {
		samples = append(samples, "(no case sampled)")
	}
	cov["samples"] = samples
	states := agg.Counters["states"]
	if states == 0 {
		states = agg.Counters["cases"]
	}
	trans := agg.Counters["transitions"]
	if trans == 0 {
		trans = evals
	}
	cov["states"] = states
	cov["transitions"] = trans
	cov["traces_validated_against_impl"] = evals
	cov["cases_total"] = total
	cov["cases_run"] = agg.Counters["cases"]
	exhaustive := agg.Counters["cases"] == total && agg.Counters["capped"] == 0
	cov["exhaustive"] = exhaustive
	cov["distinct_outcomes"] = len(agg.Outcomes)
	oc := map[string]int64{}
	keys := []string{}
	for k := range agg.Outcomes {
		keys = append(keys, k)
	}
	sort.Slice(keys, func(i, j int) bool { return agg.Outcomes[keys[i]] > agg.Outcomes[keys[j]] })
	for i, k := range keys {
		if i < 40 {
			oc[k] = agg.Outcomes[k]
		}
	}
	cov["outcome_histogram_top"] = oc
	if ck.Bounds != nil {
		cov["bounds"] = ck.Bounds(tier)
	}
	sp := []map[string]interface{}{}
	for _, s := range spaces {
		sp = append(sp, map[string]interface{}{"name": s.Name, "cases": s.N})
	}
	cov["spaces"] = sp
	if len(agg.Notes) > 0 {
		cov["notes"] = agg.Notes
	}
	cov["workers"] = n
	cov["hostile_neighbour_rounds"] = agg.Counters["neighbour_rounds"]
	cov["known_findings_matched"] = len(knownLines)
	ev := Evidence{PropertyID: id, Tier: tier, Seed: seed, Level: ck.Level, Coverage: cov, Assumptions: ck.Assume, WallS: wall, Violations: nViol}
	if ev.Assumptions == nil {
		ev.Assumptions = []string{}
	}
	eb, _ := json.MarshalIndent(ev, "", " ")
	os.MkdirAll(filepath.Join(outDir(), "evidence"), 0o755)
	os.WriteFile(filepath.Join(outDir(), "evidence", id+".json"), eb, 0o644)
	fmt.Printf("%s %s: cases=%d/%d evaluations=%d nontrivial=%d states=%d transitions=%d outcomes=%d violations=%d known=%d exhaustive=%v wall=%.1fs\n",
		id, tier, agg.Counters["cases"], total, evals, agg.Counters["nontrivial"], states, trans, len(agg.Outcomes), nViol, len(knownLines), exhaustive, wall)
	if nViol > 0 {
		return 1
	}
	return 0
}

func sanitize(s string) string {
	h := fnv.New32a()
	h.Write([]byte(s))
	defer func() {}()
	return sanitize0(s) + fmt.Sprintf("-%08x", h.Sum32())
}

func sanitize0(s string) string {
	b := []byte(s)
	for i, c := range b {
		if !(c >= 'a' && c <= 'z' || c >= 'A' && c <= 'Z' || c >= '0' && c <= '9' || c == '-' || c == '_') {
			b[i] = '_'
		}
	}
	if len(b) > 60 {
		b = b[:60]
	}
	return string(b)
}

func reprOf(spaces []Space, name string, i int64) string {
	for _, s := range spaces {
		if s.Name == name && s.Repr != nil {
			return s.Repr(i)
		}
	}
	return fmt.Sprintf("%s#%d", name, i)
}

func loadKnown() *KnownFindings {
	kf := &KnownFindings{}
	b, err := os.ReadFile(filepath.Join(verifDir(), "known_findings.json"))
	if err == nil {
		json.Unmarshal(b, kf)
	}
	return kf
}

// runWorkerOnce runs (or resumes) one shard. Returns finished=true when the
// shard is complete. On a hang or crash it records the abnormal case and
// advances the resume point past it.
func runWorkerOnce(exe, id, tier string, sh, n int, st *shardState) (bool, *abnormal) {
	args := []string{"worker", id, tier, strconv.Itoa(sh), strconv.Itoa(n), st.space, strconv.FormatInt(st.index, 10)}
	if st.careful {
		args = append(args, "careful")
	}
	if len(st.skip) > 0 {
		args = append(args, "skip="+strings.Join(st.skip, ","))
	}
	cmd := exec.Command(exe, args...)
	var stderr bytes.Buffer
	cmd.Stderr = &tailWriter{buf: &stderr}
	stdout, _ := cmd.StdoutPipe()
	if err := cmd.Start(); err != nil {
		return true, &abnormal{Kind: "crash", Info: "cannot start worker: " + err.Error()}
	}
	base := st.stats
	if base == nil {
		base = NewStats()
	}
	var last *Stats
	lastSpace, lastIndex := st.space, st.index
	atSpace, atIndex, haveAt := "", int64(0), false
	var hang *msg
	finished := false
	rd := bufio.NewReaderSize(stdout, 1<<20)
	for {
		line, err := rd.ReadBytes('\n')
		if len(line) > 0 {
			var m msg
			if json.Unmarshal(line, &m) == nil {
				switch m.T {
				case "prog":
					last, lastSpace, lastIndex = m.Stats, m.Space, m.I
				case "at":
					atSpace, atIndex, haveAt = m.Space, m.I, true
				case "hang":
					mm := m
					hang = &mm
				case "done":
					last = m.Stats
					finished = true
				}
			}
		}
		if err != nil {
			break
		}
	}
	werr := cmd.Wait()
	merged := NewStats()
	merged.Merge(base)
	if finished {
		merged.Merge(last)
		st.stats = merged
		return true, nil
	}
	// abnormal end: keep the stats of the last checkpoint (they cover exactly
	// the cases before the checkpoint's resume point), resume from there and
	// skip the offending case.
	merged.Merge(last)
	st.stats = merged
	st.space, st.index = lastSpace, lastIndex
	if hang != nil {
		st.skip = append(st.skip, hang.Space+"#"+strconv.FormatInt(hang.I, 10))
		return false, &abnormal{Kind: "hang", Space: hang.Space, Index: hang.I, Info: "no progress within the per-case watchdog"}
	}
	info := fmt.Sprintf("worker exited: %v; stderr tail: %s", werr, tail(stderr.String(), 600))
	if st.careful && haveAt {
		st.skip = append(st.skip, atSpace+"#"+strconv.FormatInt(atIndex, 10))
		return false, &abnormal{Kind: "crash", Space: atSpace, Index: atIndex, Info: info}
	}
	// first crash: redo from the checkpoint announcing every case, to locate it
	st.careful = true
	return false, nil
}

type tailWriter struct{ buf *bytes.Buffer }

func (t *tailWriter) Write(p []byte) (int, error) {
	if t.buf.Len() > 1<<20 {
		t.buf.Reset()
	}
	return t.buf.Write(p)
}

func tail(s string, n int) string {
	if len(s) > n {
		s = s[len(s)-n:]
	}
	return strings.ReplaceAll(s, "\n", " | ")
}

// runOnly executes a single case in a fresh process; returns "ok", "hang" or
// "crash" and the stats (violations) it produced.
func runOnly(exe, id, tier, space string, index int64) (string, *Stats) {
	return runOnlyW(exe, id, tier, space, index, 0, 1)
}

func runOnlyW(exe, id, tier, space string, index int64, window int64, stride int) (string, *Stats) {
	cmd := exec.Command(exe, "worker", id, tier, "0", strconv.Itoa(stride), space, strconv.FormatInt(index, 10), "only", "window="+strconv.FormatInt(window, 10))
	out, err := cmd.Output()
	var st *Stats
	kind := "ok"
	for _, line := range bytes.Split(out, []byte("\n")) {
		var m msg
		if len(line) > 0 && json.Unmarshal(line, &m) == nil {
			if m.T == "done" {
				st = m.Stats
			}
			if m.T == "hang" {
				kind = "hang"
			}
		}
	}
	if kind == "ok" && (err != nil || st == nil) {
		kind = "crash"
	}
	return kind, st
}

// ReplayMain re-executes the case recorded in a replay file, verbosely.
func ReplayMain(path string) int {
	b, err := os.ReadFile(path)
	if err != nil {
		fmt.Fprintln(os.Stderr, err)
		return 2
	}
	var r struct {
		Property string `json:"property"`
		Tier     string `json:"tier"`
		Space    string `json:"space"`
		Index    int64  `json:"index"`
		Window   int64  `json:"replay_window"`
		Stride   int    `json:"replay_stride"`
	}
	if err := json.Unmarshal(b, &r); err != nil {
		fmt.Fprintln(os.Stderr, err)
		return 2
	}
	fmt.Printf("replaying %s %s %s#%d\n", r.Property, r.Tier, r.Space, r.Index)
	exe, _ := os.Executable()
	if r.Stride < 1 {
		r.Stride = 1
	}
	cmd := exec.Command(exe, "worker", r.Property, r.Tier, "0", strconv.Itoa(r.Stride), r.Space, strconv.FormatInt(r.Index, 10), "only", "verbose", "window="+strconv.FormatInt(r.Window, 10))
	out, err := cmd.CombinedOutput()
	viol := false
	for _, line := range strings.Split(string(out), "\n") {
		var m msg
		if strings.HasPrefix(line, "{") && json.Unmarshal([]byte(line), &m) == nil {
			if m.T == "done" && m.Stats != nil && len(m.Stats.Viol) > 0 {
				viol = true
			}
			if m.T == "hang" {
				fmt.Println("  case does not terminate (watchdog)")
				viol = true
			}
			continue
		}
		if line != "" {
			fmt.Println(line)
		}
	}
	if err != nil && !viol {
		fmt.Println("  worker crashed:", err)
		viol = true
	}
	if viol {
		fmt.Printf("VIOLATION property=%s replay=%s\n", r.Property, path)
		return 1
	}
	fmt.Println("no violation on replay")
	return 0
}
