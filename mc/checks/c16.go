package checks

import (
	"fmt"
	ctok "github.com/pip-services3-gox/pip-services3-expressions-gox/calculator/tokenizers"
	"math/bits"
	"sort"
	"strings"

	"verifmc/fw"

	rio "github.com/pip-services3-gox/pip-services3-expressions-gox/io"
	"github.com/pip-services3-gox/pip-services3-expressions-gox/tokenizers"
	"github.com/pip-services3-gox/pip-services3-expressions-gox/tokenizers/generic"
)

// C16 — symbol tables return the longest registered symbol with its own type.

type c16Cfg struct {
	name   string
	cands  []string // candidate symbols (index i has token type 100+i)
	inputs []string
	cases  []c16Case
}

type c16Case struct {
	mask  int
	order []int // registration order (candidate indices)
}

func c16Strings(alpha []rune, minLen, maxLen int) []string {
	out := []string{}
	skip, n := countSeqRange(len(alpha), minLen, maxLen)
	for i := int64(0); i < n; i++ {
		out = append(out, stringByIndex(alpha, skip+i))
	}
	return out
}

func permutations(xs []int) [][]int {
	if len(xs) <= 1 {
		return [][]int{append([]int{}, xs...)}
	}
	out := [][]int{}
	for i := range xs {
		rest := append(append([]int{}, xs[:i]...), xs[i+1:]...)
		for _, p := range permutations(rest) {
			out = append(out, append([]int{xs[i]}, p...))
		}
	}
	return out
}

func c16Build(name string, alpha []rune, inAlpha []rune, maxSet int, allOrdersUpTo int, inLen int) *c16Cfg {
	return c16BuildL(name, alpha, inAlpha, maxSet, allOrdersUpTo, inLen, 3)
}

func c16BuildL(name string, alpha []rune, inAlpha []rune, maxSet int, allOrdersUpTo int, inLen int, candLen int) *c16Cfg {
	cfg := &c16Cfg{name: name, cands: c16Strings(alpha, 1, candLen), inputs: c16Strings(inAlpha, 1, inLen)}
	n := len(cfg.cands)
	masks := []int{}
	for m := 0; m < 1<<n; m++ {
		if bits.OnesCount(uint(m)) <= maxSet {
			masks = append(masks, m)
		}
	}
	sort.Slice(masks, func(i, j int) bool {
		a, b := bits.OnesCount(uint(masks[i])), bits.OnesCount(uint(masks[j]))
		if a != b {
			return a < b
		}
		return masks[i] < masks[j]
	})
	for _, m := range masks {
		idx := []int{}
		for i := 0; i < n; i++ {
			if m&(1<<i) != 0 {
				idx = append(idx, i)
			}
		}
		if len(idx) <= allOrdersUpTo {
			for _, p := range permutations(idx) {
				cfg.cases = append(cfg.cases, c16Case{m, p})
			}
		} else {
			rev := make([]int, len(idx))
			for i := range idx {
				rev[i] = idx[len(idx)-1-i]
			}
			cfg.cases = append(cfg.cases, c16Case{m, idx}, c16Case{m, rev})
		}
	}
	return cfg
}

// reference: longest registered symbol that is a prefix of in, else the next character (type Symbol).
func c16Ref(cfg *c16Cfg, mask int, in []rune) (string, int) {
	best, typ := "", -1
	for i, s := range cfg.cands {
		if mask&(1<<i) == 0 {
			continue
		}
		rs := []rune(s)
		if len(rs) <= len(in) && string(in[:len(rs)]) == s && len(rs) > len([]rune(best)) {
			best, typ = s, 100+i
		}
	}
	if typ < 0 {
		return string(in[:1]), tokenizers.Symbol
	}
	return best, typ
}

func (cs c16Case) str(cfg *c16Cfg) string {
	p := []string{}
	for _, i := range cs.order {
		p = append(p, fmt.Sprintf("Add(%q,%d)", cfg.cands[i], 100+i))
	}
	return strings.Join(p, ";")
}

func c16Tree(cfg *c16Cfg, cs c16Case) *generic.GenericSymbolState {
	st := generic.NewGenericSymbolState()
	for _, i := range cs.order {
		st.Add(cfg.cands[i], 100+i)
	}
	return st
}

// c16Read performs one read and compares with the reference; hist describes what happened before on this tree.
func c16Read(c *fw.Ctx, cfg *c16Cfg, st *generic.GenericSymbolState, mask int, in string, hist func() string) {
	rin := []rune(in)
	wantText, wantType := c16Ref(cfg, mask, rin)
	var tok *tokenizers.Token
	var rest []rune
	pv := fw.Try(func() {
		sc := rio.NewStringScanner(in)
		tok = st.NextToken(sc, nil)
		for i := 0; i < len(rin)+2; i++ {
			r := sc.Read()
			if r == -1 {
				break
			}
			rest = append(rest, r)
		}
	})
	c.Eval(1)
	if pv != nil || tok == nil {
		c.Violation("symbol-read-panic", "%s: NextToken(%q) panicked: %v", hist(), in, fw.PanicStr(pv))
		return
	}
	fresh := hist() == ""
	c.Outcome(fmt.Sprintf("len=%d,registered=%v,fresh=%v", len([]rune(tok.Value())), tok.Type() >= 100, fresh))
	if tok.Value() != wantText {
		sig := "symbol-text"
		if len([]rune(tok.Value())) == len([]rune(wantText)) {
			sig = "symbol-text-rewritten" // right length, wrong characters
		}
		if !fresh {
			sig += "-after-history"
		}
		c.Violation(sig, "%s NextToken(%q): text %q, longest registered prefix is %q", hist(), in, tok.Value(), wantText)
	} else if tok.Type() != wantType {
		c.Violation("symbol-type", "%s NextToken(%q): %q has type %d, registered %d", hist(), in, tok.Value(), tok.Type(), wantType)
	}
	wantRest := string(rin[len([]rune(wantText)):])
	if string(rest) != wantRest {
		c.Violation("symbol-consumed", "%s NextToken(%q): scanner continues with %q, must continue with %q", hist(), in, string(rest), wantRest)
	}
}

func c16Run(c *fw.Ctx, cfg *c16Cfg, ci int64, reads int) {
	cs := cfg.cases[ci]
	base := "[" + cs.str(cfg) + "]"
	var trans int64
	// (1) every sequence of `reads` reads on one tree
	n := len(cfg.inputs)
	total := 1
	for i := 0; i < reads; i++ {
		total *= n
	}
	for k := 0; k < total; k++ {
		st := c16Tree(cfg, cs)
		seq := make([]string, reads)
		kk := k
		for i := reads - 1; i >= 0; i-- {
			seq[i] = cfg.inputs[kk%n]
			kk /= n
		}
		for i, in := range seq {
			i := i
			c16Read(c, cfg, st, cs.mask, in, func() string {
				if i == 0 {
					return ""
				}
				return base + " after reading " + fmt.Sprintf("%q", seq[:i])
			})
			trans++
		}
	}
	// (2) monotonicity: read everything, add one more candidate, read everything again
	for z := range cfg.cands {
		if cs.mask&(1<<z) != 0 {
			continue
		}
		st := c16Tree(cfg, cs)
		for _, in := range cfg.inputs {
			fw.Try(func() { st.NextToken(rio.NewStringScanner(in), nil) })
		}
		st.Add(cfg.cands[z], 100+z)
		m2 := cs.mask | 1<<z
		for _, in := range cfg.inputs {
			c16Read(c, cfg, st, m2, in, func() string {
				return base + fmt.Sprintf(" read all inputs, then Add(%q,%d):", cfg.cands[z], 100+z)
			})
			trans++
		}
	}
	c.Count("transitions", trans+int64(len(cs.order)))
	c.Count("states", trans+1)
	if bits.OnesCount(uint(cs.mask)) >= 2 {
		c.Nontrivial() // shared prefixes / siblings possible
	}
}

// ---- the expression tokenizer's own symbol state: a default table plus further registrations,
// and a second instance that must keep the default table whatever was registered on the first

var c16ExprDefaults = []string{"<=", ">=", "<>", "!=", ">>", "<<"}
var c16ExprExtra = []struct {
	text string
	typ  int
}{{"=>", 101}, {"<", 102}, {"<=>", 103}, {"!", 104}, {">>>", 105}, {"=>>", 106}}
// (a symbol is never registered twice with different types: whether the first or the last type then
// holds is not specified - "registering further symbols never alters existing ones" can be read both ways)
var c16ExprInputs = c16Strings([]rune{'<', '>', '=', '!'}, 1, 4)

func c16ExprRef(reg map[string]int, in []rune) (string, int) {
	best, typ := string(in[:1]), tokenizers.Symbol
	found := false
	for s, t := range reg {
		rs := []rune(s)
		if len(rs) <= len(in) && string(in[:len(rs)]) == s && (!found || len(rs) > len([]rune(best))) {
			best, typ, found = s, t, true
		}
	}
	return best, typ
}

type c16SymbolState interface {
	Add(value string, tokenType int)
	NextToken(scanner rio.IScanner, tokenizer tokenizers.ITokenizer) *tokenizers.Token
}

func c16ExprRun(c *fw.Ctx, order []int) {
	reg := map[string]int{}
	for _, s := range c16ExprDefaults {
		reg[s] = tokenizers.Symbol
	}
	defaults := map[string]int{}
	for k, v := range reg {
		defaults[k] = v
	}
	var a c16SymbolState = ctok.NewExpressionSymbolState()
	hist := []string{}
	read := func(st c16SymbolState, reg map[string]int, who string) {
		for _, in := range c16ExprInputs {
			rin := []rune(in)
			wantText, wantType := c16ExprRef(reg, rin)
			var tok *tokenizers.Token
			var rest []rune
			pv := fw.Try(func() {
				sc := rio.NewStringScanner(in)
				tok = st.NextToken(sc, nil)
				for i := 0; i < len(rin)+2; i++ {
					r := sc.Read()
					if r == -1 {
						break
					}
					rest = append(rest, r)
				}
			})
			c.Eval(1)
			if pv != nil || tok == nil {
				c.Violation("symbol-read-panic:expression-state", "%s after [%s]: NextToken(%q) panicked: %v", who, strings.Join(hist, ";"), in, fw.PanicStr(pv))
				return
			}
			if tok.Value() != wantText || tok.Type() != wantType || string(rest) != string(rin[len([]rune(wantText)):]) {
				sig := "expression-symbol-state"
				if who != "the state itself" {
					sig = "registration-reaches-another-symbol-state"
				}
				c.Violation(sig, "%s after [%s] on the first state: NextToken(%q) = %q type %d leaving %q; longest registered prefix is %q with type %d", who, strings.Join(hist, ";"), in, tok.Value(), tok.Type(), string(rest), wantText, wantType)
				return
			}
		}
	}
	read(a, reg, "the state itself")
	for _, k := range order {
		e := c16ExprExtra[k]
		a.Add(e.text, e.typ)
		reg[e.text] = e.typ
		hist = append(hist, fmt.Sprintf("Add(%q,%d)", e.text, e.typ))
		read(a, reg, "the state itself")
		read(ctok.NewExpressionSymbolState(), defaults, "a NEW expression symbol state")
	}
	if len(order) > 0 {
		c.Nontrivial()
	}
	c.Count("states", int64(len(order)+1))
	c.Count("transitions", int64(len(order)*2+1)*int64(len(c16ExprInputs)))
}

// ---- width pump: k symbols with k DIFFERENT first characters (one node with k children), in three
// registration orders; every registered symbol, its bare first character and an unregistered
// continuation are read back after every further registration of the last eight

var c16WideChars = []rune("<>=!+-*/%^&|~?:;.,@#$(){}[]_abcdefghijklmnopqrstuvwxyzABCDEFGHIJ¡§«±µ»¿×÷ÿ")

func c16Wide(c *fw.Ctx, k int, order int) {
	if k > len(c16WideChars) {
		k = len(c16WideChars)
	}
	idx := make([]int, k)
	for i := range idx {
		switch order {
		case 0:
			idx[i] = i
		case 1:
			idx[i] = k - 1 - i
		default: // outside-in
			if i%2 == 0 {
				idx[i] = i / 2
			} else {
				idx[i] = k - 1 - i/2
			}
		}
	}
	st := generic.NewGenericSymbolState()
	reg := map[string]int{}
	check := func(after string) bool {
		for _, i := range idx {
			ch := string(c16WideChars[i])
			for _, in := range []string{ch + "=z", ch + "z", ch + "==", ch} {
				rin := []rune(in)
				wantText, wantType := c16ExprRef(reg, rin)
				var tok *tokenizers.Token
				var rest []rune
				pv := fw.Try(func() {
					sc := rio.NewStringScanner(in)
					tok = st.NextToken(sc, nil)
					for j := 0; j < len(rin)+2; j++ {
						r := sc.Read()
						if r == -1 {
							break
						}
						rest = append(rest, r)
					}
				})
				c.Eval(1)
				if pv != nil || tok == nil {
					c.Violation("symbol-read-panic:wide-table", "table of %d first characters (order %d) after %s: NextToken(%q) panicked: %v", k, order, after, in, fw.PanicStr(pv))
					return false
				}
				if tok.Value() != wantText || tok.Type() != wantType || string(rest) != string(rin[len([]rune(wantText)):]) {
					c.Violation("wide-symbol-table", "table of %d different first characters (registration order %d) after %s: NextToken(%q) = %q type %d leaving %q; longest registered prefix is %q with type %d", k, order, after, in, tok.Value(), tok.Type(), string(rest), wantText, wantType)
					return false
				}
			}
		}
		return true
	}
	for n, i := range idx {
		sym := string(c16WideChars[i]) + "="
		st.Add(sym, 200+i)
		reg[sym] = 200 + i
		if i%3 == 0 {
			one := string(c16WideChars[i])
			st.Add(one, 300+i)
			reg[one] = 300 + i
		}
		if n >= len(idx)-8 || n%8 == 7 {
			if !check(fmt.Sprintf("%d registrations, the last one %q", n+1, sym)) {
				return
			}
		}
	}
	c.Nontrivial()
	c.Count("states", int64(k))
	c.Count("transitions", int64(k*4))
}

// ---- very long symbols: the symbol a^(k-1)b with and without its one-character prefix registered; inputs
// that follow it for k-1 characters and then diverge or end (the state must give back all of them)

func c16LongSymbol(c *fw.Ctx, k int, withPrefix bool) {
	st := generic.NewGenericSymbolState()
	long := strings.Repeat("a", k-1) + "b"
	reg := map[string]int{long: 150}
	st.Add(long, 150)
	if withPrefix {
		st.Add("a", 151)
		reg["a"] = 151
	}
	for _, in := range []string{long + "a", strings.Repeat("a", k-1) + "c" + "ab", strings.Repeat("a", k-1), strings.Repeat("a", k/2) + "c", long} {
		rin := []rune(in)
		wantText, wantType := c16ExprRef(reg, rin)
		var tok *tokenizers.Token
		restLen := -1
		pv := fw.Try(func() {
			sc := rio.NewStringScanner(in)
			tok = st.NextToken(sc, nil)
			restLen = 0
			for sc.Read() != -1 && restLen <= len(rin)+2 {
				restLen++
			}
		})
		c.Eval(1)
		if pv != nil || tok == nil {
			c.Violation("symbol-read-panic:long-symbol", "symbol of %d characters (prefix registered: %v): NextToken over %d characters panicked: %v", k, withPrefix, len(rin), fw.PanicStr(pv))
			return
		}
		if tok.Value() != wantText || tok.Type() != wantType || restLen != len(rin)-len([]rune(wantText)) {
			c.Violation("long-symbol", "symbol a^%db of %d characters (one-character prefix registered: %v), input of %d characters (%q...): token of %d characters type %d leaving %d characters; longest registered prefix has %d characters and type %d, leaving %d", k-1, k, withPrefix, len(rin), string(rin[:1]), len([]rune(tok.Value())), tok.Type(), restLen, len([]rune(wantText)), wantType, len(rin)-len([]rune(wantText)))
			return
		}
	}
	c.Nontrivial()
}

var c16Cache = map[string]*c16Cfg{}

func c16Get(tier, which string) *c16Cfg {
	k := tier + which
	if v, ok := c16Cache[k]; ok {
		return v
	}
	var v *c16Cfg
	switch {
	case which == "ab" && tier == "quick":
		v = c16Build("ab", []rune("ab"), []rune("abc"), 3, 3, 3)
	case which == "ab":
		v = c16Build("ab", []rune("ab"), []rune("abc"), 5, 3, 3)
	case which == "ab-all": // every subset, single reads and monotonicity only
		v = c16Build("ab-all", []rune("ab"), []rune("abc"), 14, 3, 4)
	case which == "ab4": // longer inputs, small sets, all orders
		v = c16Build("ab4", []rune("ab"), []rune("abc"), 3, 3, 4)
	case which == "ab3": // triple reads, small sets, all orders
		v = c16Build("ab3", []rune("ab"), []rune("abc"), 3, 2, 3)
	case which == "nonlatin3":
		// several sibling characters above U+00FF under one node
		v = c16BuildL("nonlatin3", []rune("яж→"), []rune("яж→c"), 4, 2, 3, 2)
		keep := []c16Case{}
		for _, cs := range v.cases {
			if bits.OnesCount(uint(cs.mask)) >= 3 {
				keep = append(keep, cs)
			}
		}
		if tier == "quick" && len(keep) > 1500 {
			step := len(keep) / 1500
			k2 := []c16Case{}
			for i := 0; i < len(keep); i += step {
				k2 = append(k2, keep[i])
			}
			keep = k2
		}
		v.cases = keep
	case which == "deep":
		// longer symbols: a node deeper than a later-registered shorter symbol must unwind to it
		v = c16Build("deep", []rune("ab"), []rune("abc"), 3, 3, 4)
		v.cands = []string{"a", "aa", "aaa", "aaaa", "aaab", "aab", "ab", "aaaaa"}
		v.cases = nil
		n := len(v.cands)
		for m := 1; m < 1<<n; m++ {
			if bits.OnesCount(uint(m)) > 3 {
				continue
			}
			idx := []int{}
			for i := 0; i < n; i++ {
				if m&(1<<i) != 0 {
					idx = append(idx, i)
				}
			}
			for _, p := range permutations(idx) {
				v.cases = append(v.cases, c16Case{m, p})
			}
		}
	case which == "alias":
		// sibling characters that are equal modulo 2^8 ('a', U+0161, U+0261; symbols cannot hold astral characters)
		v = c16BuildL("alias", []rune{'a', 0x161, 0x261}, []rune{'a', 0x161, 0x261, 'c'}, 3, 2, 3, 2)
	case tier == "quick":
		v = c16Build("aя", []rune("aя"), []rune("aяc"), 2, 2, 3)
	default:
		v = c16Build("aя", []rune("aя"), []rune("aяc"), 4, 3, 3)
	}
	c16Cache[k] = v
	return v
}

func init() {
	fw.Register(&fw.Check{
		ID:    "C16",
		Level: "model_checking",
		Rule: "symbol sets = subsets of the 14 strings of length 1..3 over {a,b} (own token type each), every registration order for sets of <=3 symbols (two orders otherwise); on each real tree every sequence of reads over all inputs of bounded length over {a,b,c}, " +
			"and for every further candidate: read all inputs, Add it, read all inputs again; each read compared with 'longest registered prefix, else one character' for text, type and consumed length; same over {a,я} for the >U+00FF child lookup; plus sets of <=3 symbols of length up to 5 (a, aa, aaa, aaaa, aaab, aab, ab, aaaaa) in every order with inputs up to length 4, where a later-registered shorter symbol must be honoured by deeper nodes; plus one symbol of up to 513 characters with inputs that follow it almost to the end; plus symbols over three characters that are equal modulo 2^8; plus tables of up to 74 symbols with different first characters (one node with that many children) in three registration orders; plus the expression tokenizer's own symbol state: its default table, every sequence of <=3 (thorough 4) further registrations out of 6 (new symbols, a prefix and extensions of default symbols), all inputs of length<=4 over {<,>,=,!} after every step, and a NEW expression symbol state that must still read by the default table; non-trivial = tree with >=2 symbols",
		Assume: []string{"trees are rebuilt from scratch for every read sequence (real objects cannot be cloned)"},
		Spaces: func(tier string) []fw.Space {
			sp := []fw.Space{}
			add := func(which string, reads int, label string) {
				cfg := c16Get(tier, which)
				sp = append(sp, fw.Space{Name: label, N: int64(len(cfg.cases)), Timeout: 300e9,
					Run:  func(c *fw.Ctx, i int64) { c16Run(c, cfg, i, reads) },
					Repr: func(i int64) string { return "[" + cfg.cases[i].str(cfg) + "]" }})
			}
			add("ab", 2, "sets-ab-read-pairs")
			if tier == "thorough" {
				add("ab-all", 1, "all-subsets-single-reads")
				add("ab3", 3, "sets-ab-read-triples")
				add("ab4", 2, "sets-ab-long-inputs")
			}
			add("aя", 2, "sets-nonlatin-read-pairs")
			add("deep", 1, "deep-symbols-monotonicity")
			add("nonlatin3", 1, "three-nonlatin-alphabet")
			add("alias", 1, "sibling-characters-equal-modulo-256")
			longK := append(append([]int{}, pumpCountsSmall...), 255, 258, 259, 300, 513)
			sp = append(sp, fw.Space{Name: "long-symbols", N: int64(len(longK) * 2),
				Run:  func(c *fw.Ctx, i int64) { c16LongSymbol(c, longK[int(i)/2], i%2 == 1) },
				Repr: func(i int64) string { return fmt.Sprintf("one symbol of %d characters, one-character prefix registered: %v", longK[int(i)/2], i%2 == 1) }})
			sp = append(sp, fw.Space{Name: "wide-tables", N: int64(len(widthCounts) * 3),
				Run:  func(c *fw.Ctx, i int64) { c16Wide(c, widthCounts[int(i)/3], int(i)%3) },
				Repr: func(i int64) string { return fmt.Sprintf("symbols with %d different first characters, registration order %d", widthCounts[int(i)/3], i%3) }})
			ne := len(c16ExprExtra)
			depth := 3
			if tier == "thorough" {
				depth = 4
			}
			sp = append(sp, fw.Space{Name: "expression-symbol-state", N: countStrings(ne, depth),
				Run: func(c *fw.Ctx, i int64) { c16ExprRun(c, seqByIndex(ne, i)) },
				Repr: func(i int64) string {
					p := []string{}
					for _, k := range seqByIndex(ne, i) {
						p = append(p, fmt.Sprintf("Add(%q,%d)", c16ExprExtra[k].text, c16ExprExtra[k].typ))
					}
					return "expression symbol state (default table) then [" + strings.Join(p, ";") + "]"
				}})
			return sp
		},
		Bounds: func(tier string) string {
			if tier == "thorough" {
				return "all 16384 subsets of 14 candidates over {a,b}; all orders for |S|<=3; read pairs over 120 inputs (len<=4); read triples for |S|<=3 over 39 inputs; non-Latin sets |S|<=4"
			}
			return "subsets with |S|<=3 over {a,b} in every order; read pairs over 39 inputs (len<=3) over {a,b,c}; non-Latin sets |S|<=2"
		},
	})
}
