package checks

// Index-addressable enumerators shared by the checks. Order is always
// shortest first, then lexicographic in alphabet order, so index order is
// "simplest first" and the smallest failing index is a minimal witness.

// countStrings = number of strings of length 0..maxLen over k symbols.
func countStrings(k, maxLen int) int64 {
	var n, p int64 = 0, 1
	for l := 0; l <= maxLen; l++ {
		n += p
		p *= int64(k)
	}
	return n
}

// seqByIndex decodes index i into a sequence of symbol indices (shortlex).
func seqByIndex(k int, i int64) []int {
	l := 0
	p := int64(1)
	for i >= p {
		i -= p
		p *= int64(k)
		l++
	}
	out := make([]int, l)
	for j := l - 1; j >= 0; j-- {
		out[j] = int(i % int64(k))
		i /= int64(k)
	}
	return out
}

func stringByIndex(alpha []rune, i int64) string {
	seq := seqByIndex(len(alpha), i)
	r := make([]rune, len(seq))
	for j, s := range seq {
		r[j] = alpha[s]
	}
	return string(r)
}

// joinByIndex builds a string from a vocabulary of lexemes.
func lexemesByIndex(vocab []string, i int64) []string {
	seq := seqByIndex(len(vocab), i)
	out := make([]string, len(seq))
	for j, s := range seq {
		out[j] = vocab[s]
	}
	return out
}

// countSeqRange = number of sequences with minLen..maxLen.
func countSeqRange(k, minLen, maxLen int) (skip int64, n int64) {
	skip = 0
	if minLen > 0 {
		skip = countStrings(k, minLen-1)
	}
	return skip, countStrings(k, maxLen) - skip
}
