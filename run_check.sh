#!/bin/bash
# usage: run_check.sh <property-id> <quick|thorough>   |   run_check.sh replay <file>
# Rebuilds the harness against the CURRENT working tree of the repository
# (VERIF_REPO, default /repo), runs the check, writes evidence/<id>.json.
set -u
VERIF=${VERIF_DIR:-$(cd "$(dirname "$0")" && pwd)}
REPO=${VERIF_REPO:-/repo}
export VERIF_DIR=$VERIF VERIF_REPO=$REPO
export GOFLAGS=-mod=mod GOPROXY=off GOSUMDB=off GOTOOLCHAIN=local
export GOCACHE=${VERIF_GOCACHE:-$VERIF/.gocache}
export TZ=UTC
mkdir -p "$VERIF/bin" "$VERIF/evidence" "$VERIF/replays"
BIN="$VERIF/bin/check.$$"
OV="$VERIF/bin/overlay.$$"
trap 'rm -rf "$BIN" "$BIN.race" "$OV" "$OV.race"' EXIT
ID="$1"
if [ "$1" = "replay" ]; then ID=$(sed -n 's/.*"property": *"\([^"]*\)".*/\1/p' "$2" | head -1); fi
(
  flock 9
  cd "$VERIF/mc" || exit 2
  sed "s#@REPO@#$REPO#" go.mod.tmpl > go.mod.new
  cmp -s go.mod.new go.mod || mv go.mod.new go.mod
  rm -f go.mod.new
  cat "$REPO/go.sum" > go.sum
  go build -o "$VERIF/bin/gen" ./cmd/gen || exit 2
  if [ "$ID" = "C19" ]; then
    # C19: yield points are inserted into copies of the evaluator sources (overlay, regenerated from the working tree)
    "$VERIF/bin/gen" "$REPO" "$OV" instrument >/dev/null || exit 2
    "$VERIF/bin/gen" "$REPO" "$OV.race" >/dev/null || exit 2
    go build -ldflags=-checklinkname=0 -overlay "$OV/overlay.json" -o "$BIN" ./cmd/check || exit 2
    go build -race -ldflags=-checklinkname=0 -overlay "$OV.race/overlay.json" -o "$BIN.race" ./cmd/check || exit 2
  else
    "$VERIF/bin/gen" "$REPO" "$OV" >/dev/null || exit 2
    # -checklinkname=0: checks/randseam.go reaches the process-wide generator of math/rand
    go build -ldflags=-checklinkname=0 -overlay "$OV/overlay.json" -o "$BIN" ./cmd/check || exit 2
  fi
) 9>"$VERIF/bin/.lock"
rc=$?
if [ $rc -ne 0 ] || [ ! -x "$BIN" ]; then
  echo "BUILD-FAILED: harness does not build against $REPO" >&2
  exit 2
fi
[ -x "$BIN.race" ] && export VERIF_RACE_BIN="$BIN.race"
if [ "$1" = "replay" ]; then
  "$BIN" replay "$2"; exit $?
fi
"$BIN" run "$1" "${2:-quick}"
