package checks

import (
	"fmt"
	"strings"

	"verifmc/fw"

	"github.com/pip-services3-gox/pip-services3-expressions-gox/tokenizers"
)

// C15 — tokenizer options only drop or rewrite whole tokens.

var c15Alphabets = map[string][]rune{
	"generic":    []rune("a1.-\"'#<= \n\U0001F600"),
	"expression": []rune("a1.e\"'/*<= \U0001F600"),
	"csv":        []rune("a,\"\n\r я\U0001F600"),
	"mustache":   []rune("a{}#'! /1я\"\U0001F600"),
	"csv+latin1": []rune("a\u00a6\u00ab\u00ff\n \U0001F600"),
	"csv+wide":   []rune("a\u2192;\u201d'\n\U0001F600"),
}

// refDecode is the reference decoding of a token read by the quote state.
// unspecifiedValue marks a token value no property pins (sameTV treats it as a wildcard): the decoded
// value of a literal that is not well formed - unterminated, or with a lone quote inside.
const unspecifiedValue = "\x00unspecified"

func refDecode(kind string, v string) string {
	r := []rune(v)
	if len(r) >= 2 && r[0] == r[len(r)-1] {
		q := string(r[0])
		inner := string(r[1 : len(r)-1])
		if kind == "expression" || strings.HasPrefix(kind, "csv") {
			// quotes inside must come in pairs
			run := 0
			for _, ch := range r[1 : len(r)-1] {
				if ch == r[0] {
					run++
				} else {
					if run%2 != 0 {
						return unspecifiedValue
					}
					run = 0
				}
			}
			if run%2 != 0 {
				return unspecifiedValue
			}
			inner = strings.ReplaceAll(inner, q+q, q)
		}
		return inner
	}
	return unspecifiedValue
}

// fromQuoteState tells whether a token of the option-free stream was read by the quote state.
func fromQuoteState(kind string, t tokRec) bool {
	if t.typ == tokenizers.Quoted {
		return true
	}
	if kind == "expression" && t.typ == tokenizers.Word && strings.HasPrefix(t.val, "\"") {
		return true
	}
	return false
}

// refTransform is T: the option-free stream with whole tokens dropped or rewritten.
// It returns the transformed stream and, per emitted token, the index of its original.
func refTransform(kind string, opts int, base []tokRec) ([]tokRec, []int) {
	out := []tokRec{}
	idx := []int{}
	lastEmitted := -1
	for i, t := range base {
		if t.typ == tokenizers.Eof {
			if opts&optSkipEof != 0 {
				continue
			}
			out = append(out, t)
			idx = append(idx, i)
			continue
		}
		if t.typ == tokenizers.Unknown && opts&optSkipUnknown != 0 {
			continue
		}
		if opts&optDecode != 0 {
			if fromQuoteState(kind, t) {
				t.val = refDecode(kind, t.val)
			} else if r := []rune(t.val); len(r) > 0 && strings.ContainsRune("'\"«”\u00ff", r[0]) && refDecode(kind, t.val) == unspecifiedValue {
				// a literal that is not well formed, whatever type the tokenizer gives it: its value under
				// the decode option is not pinned by any statement
				t.val = unspecifiedValue
			}
		}
		if t.typ == tokenizers.Comment && opts&optSkipComments != 0 {
			continue
		}
		if t.typ == tokenizers.Whitespace && opts&optSkipWhitespaces != 0 && lastEmitted == tokenizers.Whitespace {
			continue
		}
		if t.typ == tokenizers.Whitespace && opts&optMerge != 0 {
			t.val = " "
		}
		if opts&optUnify != 0 && (t.typ == tokenizers.Integer || t.typ == tokenizers.Float || t.typ == tokenizers.HexDecimal) {
			t.typ = tokenizers.Number
		}
		out = append(out, t)
		idx = append(idx, i)
		lastEmitted = t.typ
	}
	return out, idx
}

func sameTV(a, b []tokRec) bool {
	if len(a) != len(b) {
		return false
	}
	for i := range a {
		if a[i].typ != b[i].typ || (a[i].val != b[i].val && a[i].val != unspecifiedValue && b[i].val != unspecifiedValue) {
			return false
		}
	}
	return true
}

var c15Tok = map[string]tokenizers.ITokenizer{}

func c15Tokenize(kind string, opts int, text string) tokResult {
	t := c15Tok[kind]
	if t == nil {
		t = newTokenizer(kind)
		c15Tok[kind] = t
	}
	setOptions(t, opts)
	r := tokenizeOn(t, text)
	if r.failed() {
		delete(c15Tok, kind) // never reuse an instance that was abandoned mid-way
	}
	return r
}

func c15Run(c *fw.Ctx, kind, text string, optSets []int) {
	base := tokenize(kind, 0, text)
	c.Eval(1)
	if base.failed() || c04Lossy(base.toks, text) {
		c.Count("skipped_base_not_lossless", 1)
		c.Outcome("base-stream-broken(C04/C03)")
		return
	}
	for _, o := range optSets {
		if o == 0 {
			continue
		}
		want, _ := refTransform(kind, o, base.toks)
		got := c15Tokenize(kind, o, text)
		c.Eval(1)
		if got.failed() {
			// confirm on a fresh instance
			got = tokenize(kind, o, text)
		}
		if got.failed() {
			sig := "panic-under-options"
			if _, ok := got.panic.(budgetExceeded); ok {
				sig = "nonterminating-under-options"
			}
			c.Violation(sig+":"+kind, "%s tokenizer, options %s, input %q: %s; option-free stream %s", kind, optStr(o), text, got.failStr(), tokShort(base.toks))
			continue
		}
		if !sameTV(got.toks, want) {
			got2 := tokenize(kind, o, text) // fresh instance: attribute to options, not to reuse
			if sameTV(got2.toks, want) {
				c.Violation("reused-instance-differs:"+kind, "%s tokenizer, options %s, input %q: reused instance gives %s, fresh gives %s", kind, optStr(o), text, tokShort(got.toks), tokShort(got2.toks))
				delete(c15Tok, kind)
				continue
			}
			c.Violation(c15Classify(kind, o, base.toks, got2.toks, want), "%s tokenizer, options %s, input %q: got %s, option-free stream %s transforms to %s", kind, optStr(o), text, tokShort(got2.toks), tokShort(base.toks), tokShort(want))
			continue
		}
		if !sameTV(want, base.toks) {
			c.Nontrivial()
		}
		// the same option set applied AGAIN between every look-ahead (HasNextToken) and the fetch
		{
			t := c15Tok[kind+"#again"]
			if t == nil {
				t = newTokenizer(kind)
				c15Tok[kind+"#again"] = t
			}
			setOptions(t, o)
			again := tokenizeWithNoopSetters(t, o, text, 1)
			c.Eval(1)
			if again.failed() || tokStr(again.toks) != tokStr(got.toks) {
				delete(c15Tok, kind+"#again")
				t = newTokenizer(kind) // a fresh instance decides
				setOptions(t, o)
				again = tokenizeWithNoopSetters(t, o, text, 1)
			}
			if again.failed() || tokStr(again.toks) != tokStr(got.toks) {
				detail := tokShort(again.toks)
				if again.failed() {
					detail = again.failStr()
				}
				c.Violation("stream-changes-when-options-are-set-again-mid-stream:"+kind, "%s tokenizer, options %s, input %q: re-applying the same options between HasNextToken() and NextToken() gives %s, an undisturbed iteration gives %s", kind, optStr(o), text, detail, tokShort(got.toks))
			}
		}
	}
	c.Outcome(fmt.Sprintf("%s:base-tokens=%d", kind, len(base.toks)))
}

// c15Classify names the failing mechanism.
func c15Classify(kind string, o int, base, got, want []tokRec) string {
	concat := func(ts []tokRec) string {
		var sb strings.Builder
		for _, t := range ts {
			sb.WriteString(t.val)
		}
		return sb.String()
	}
	adjWS := false
	for i := 1; i < len(got); i++ {
		if got[i].typ == tokenizers.Whitespace && got[i-1].typ == tokenizers.Whitespace {
			adjWS = true
		}
	}
	switch {
	case adjWS && o&optSkipWhitespaces != 0:
		return "adjacent-whitespace-with-skipWhitespaces:" + kind
	case o&(optDecode|optMerge) == 0 && len(got) == len(want) && concat(got) == concat(want):
		return "token-types-differ:" + kind
	case o&(optDecode|optMerge|optSkipUnknown|optSkipComments|optSkipWhitespaces) == 0:
		return "resegmented-by-type-only-options:" + kind
	}
	// does the segmentation differ? compare boundaries of surviving text
	names := []string{}
	for i, n := range optNames {
		if o&(1<<i) != 0 {
			names = append(names, n)
		}
	}
	if len(names) == 1 {
		return "differs-under-" + names[0] + ":" + kind
	}
	return "differs-under-option-combination:" + kind
}

// lexeme vocabularies: quoted strings whose CONTENT is a symbol, comment opener, whitespace or number,
// so that a decoded value could be mistaken for another token class
var c15Lexemes = map[string][]string{
	"generic":    {"a", "1", " ", "'<='", "'#'", "' '", "\"1\"", "''", "#", "<=", "\n", "\U0001F600", "-", "'"},
	// (the last two: one inner text of 24 bytes holding both kinds of doubled quotes, once in each quote character)
	"expression": {"a", "1", " ", "'<='", "'/*'", "'*/'", "\"a b\"", "''", "/*", "*/", "<=", "\U0001F600", "'", "'He said \"\"hi\"\" it''s ok'", "\"He said \"\"hi\"\" it''s ok\""},
	"csv":        {"a", ",", "\",\"", "\"\"\"\"", "\"\r\n\"", "\r\n", "\n", " ", "\"", "я"},
	"mustache":   {"a", "{{", "}}", "{{{", "}}}", "'}}'", "'{{'", "'}}}'", "\"}}\"", "' '", " ", "#", "x", "'"},
}

func init() {
	fw.Register(&fw.Check{
		ID:    "C15",
		Level: "model_checking",
		Rule: "Also: the generic and the expression tokenizer configured with symbols of the user's own (one with an unregistered prefix, some starting with the sign) and a whitespace character the dispatch table does not start a whitespace on, every string up to length 4..6 over an 11-character alphabet. (also: 183 boundary characters (aliases modulo 2^8 and 2^16 and up to four characters of every Unicode general category among them) in every short context and every pattern of <=2 characters repeated up to 1000 times) 4 tokenizers x every string up to the length bound over a 8..12-symbol alphabet (whitespace, comment opener, number, quotes, unknown character, multi-character symbol) x all 128 option sets, plus every sequence of <=3 (thorough 4) lexemes from a vocabulary with quoted strings whose content is a symbol, comment opener or blank; " +
			"oracle: stream(opts) == T(opts, stream(no options)) for a reference transformer that only drops/rewrites whole tokens; inputs whose option-free stream is itself broken are skipped and counted (C04); " +
			"non-trivial = (input, option set) pairs on which T is not the identity",
		Assume: []string{"C04 holds for the input (otherwise skipped)", "termination decided by the scanner step budget"},
		Spaces: func(tier string) []fw.Space {
			lens := map[string]int{"generic": 4, "expression": 4, "csv": 5, "mustache": 4, "csv+latin1": 4, "csv+wide": 4}
			if tier == "thorough" {
				lens = map[string]int{"generic": 5, "expression": 5, "csv": 6, "mustache": 5, "csv+latin1": 5, "csv+wide": 5}
			}
			all := []int{}
			for o := 0; o < 128; o++ {
				all = append(all, o)
			}
			sp := []fw.Space{}
			for _, kind := range tokKindsExt {
				kind := kind
				al := c15Alphabets[kind]
				sp = append(sp, fw.Space{Name: kind, N: countStrings(len(al), lens[kind]),
					Run:  func(c *fw.Ctx, i int64) { c15Run(c, kind, stringByIndex(al, i), all) },
					Repr: func(i int64) string { return fmt.Sprintf("%s tokenizer, input %q, all 128 option sets", kind, stringByIndex(al, i)) }})
			}
			for _, kind := range tokKindsCustom {
				kind := kind
				cl := 4
				if tier == "thorough" {
					cl = 5
				}
				sp = append(sp, fw.Space{Name: kind, N: countStrings(len(customAlphabet), cl),
					Run:  func(c *fw.Ctx, i int64) { c15Run(c, kind, stringByIndex(customAlphabet, i), all) },
					Repr: func(i int64) string { return fmt.Sprintf("%s tokenizer, input %q, all 128 option sets", kind, stringByIndex(customAlphabet, i)) }})
			}
			lexLen := 3
			if tier == "thorough" {
				lexLen = 4
			}
			for _, kind := range tokKinds {
				kind := kind
				vocab := c15Lexemes[kind]
				sp = append(sp, fw.Space{Name: kind + "-lexemes", N: countStrings(len(vocab), lexLen),
					Run:  func(c *fw.Ctx, i int64) { c15Run(c, kind, strings.Join(lexemesByIndex(vocab, i), ""), all) },
					Repr: func(i int64) string {
						return fmt.Sprintf("%s tokenizer, input %q, all 128 option sets", kind, strings.Join(lexemesByIndex(vocab, i), ""))
					}})
			}
			ctxN := 1
			counts := pumpCountsSmall
			if tier == "thorough" {
				ctxN = 2
				counts = pumpCounts
			}
			for _, kind := range tokKinds {
				kind := kind
				ca := tokContextAlphabets[kind]
				nctx := contextsCount(ca, ctxN)
				sp = append(sp, fw.Space{Name: "charsweep-doubled-" + kind, N: int64(len(boundaryChars)) * (1 + int64(len(ca))),
					Run: func(c *fw.Ctx, i int64) {
						ch := string(boundaryChars[i/(1+int64(len(ca)))])
						mid := ""
						if k := i % (1 + int64(len(ca))); k > 0 {
							mid = string(ca[k-1])
						}
						c15Run(c, kind, ch+mid+ch, all)
					},
					Repr: func(i int64) string {
						ch := string(boundaryChars[i/(1+int64(len(ca)))])
						mid := ""
						if k := i % (1 + int64(len(ca))); k > 0 {
							mid = string(ca[k-1])
						}
						return fmt.Sprintf("%s tokenizer, input %q (a boundary character on both sides of a short middle)", kind, ch+mid+ch)
					}})
				sp = append(sp, fw.Space{Name: "charsweep-" + kind, N: nctx * int64(len(boundaryChars)),
					Run: func(c *fw.Ctx, i int64) {
						pre, suf := contextByIndex(ca, ctxN, i%nctx)
						c15Run(c, kind, pre+string(boundaryChars[i/nctx])+suf, all)
					},
					Repr: func(i int64) string {
						pre, suf := contextByIndex(ca, ctxN, i%nctx)
						return fmt.Sprintf("%s tokenizer, input %q, %d option sets", kind, pre+string(boundaryChars[i/nctx])+suf, len(all))
					}})
				npat := countStrings(len(ca), 2) - 1
				sp = append(sp, fw.Space{Name: "pumped-" + kind, N: npat * int64(len(counts)),
					Run: func(c *fw.Ctx, i int64) {
						c15Run(c, kind, pumped(stringByIndex(ca, 1+i%npat), counts[i/npat]), all)
					},
					Repr: func(i int64) string {
						return fmt.Sprintf("%s tokenizer, input %q repeated %d times, %d option sets", kind, stringByIndex(ca, 1+i%npat), counts[i/npat], len(all))
					}})
			}
			// change-directed: literals that are new in the working tree as extra letters
			if na := newAtoms(5); len(na) > 0 {
				atoms := append(append([]string{}, na...), "a", "'")
				for _, kind := range tokKinds {
					kind := kind
					sp = append(sp, fw.Space{Name: "new-literals-" + kind, N: countStrings(len(atoms), 5),
						Run:  func(c *fw.Ctx, i int64) { c15Run(c, kind, strings.Join(lexemesByIndex(atoms, i), ""), all) },
						Repr: func(i int64) string { return fmt.Sprintf("%s tokenizer, input %q (letters incl. literals new in the working tree: %q), %d option sets", kind, strings.Join(lexemesByIndex(atoms, i), ""), na, len(all)) }})
				}
			}
			return sp
		},
		Bounds: func(tier string) string {
			if tier == "thorough" {
				return "strings len<=5 (csv len<=6) and lexeme sequences len<=4 over 10-14 lexemes x 128 option sets x 4 tokenizers"
			}
			return "strings len<=4 (csv len<=5) and lexeme sequences len<=3 over 10-14 lexemes x 128 option sets x 4 tokenizers"
		},
	})
}
