package checks

import (
	"fmt"
	"strings"

	"verifmc/fw"

	"github.com/pip-services3-gox/pip-services3-expressions-gox/csv"
	"github.com/pip-services3-gox/pip-services3-expressions-gox/tokenizers"
)

// C09 — CSV text round-trips through the tokenizer for any table and configuration.

var c09Fields = []string{"", "a", " ", "a b", ",", ";", "\t", "\"", "'", "\"\"", "\"a\"", "\n", "\r", "\r\n", "x\ny", "я", "яa", "é", "￾", "a\"b", "”", "→", "\ufffd", "«", "\ufeffa", "я\"b", "→\"\"é"}
var c09FieldsSmall = []string{"", "a", ",", "\"", "\n", "\r", "яa", "→"}

type c09Cfg struct {
	seps, quotes []rune
	eol          string
	always       bool
	useSep       int
	useQuote     int
	alternate    bool // rotate through the configured quote symbols and separators field by field
	// the tokenizer was configured with these lists and used before it got seps/quotes (reconfiguration)
	preSeps, preQuotes []rune
}

func (k c09Cfg) String() string {
	if k.preSeps != nil {
		return fmt.Sprintf("tokenizer first configured with separators=%q quotes=%q and used, then separators=%q quotes=%q eol=%q always-quote=%v writer-uses sep %q quote %q", string(k.preSeps), string(k.preQuotes), string(k.seps), string(k.quotes), k.eol, k.always, string(k.seps[k.useSep]), string(k.quotes[k.useQuote]))
	}
	return fmt.Sprintf("separators=%q quotes=%q eol=%q always-quote=%v writer-uses sep %q quote %q alternating=%v", string(k.seps), string(k.quotes), k.eol, k.always, string(k.seps[k.useSep]), string(k.quotes[k.useQuote]), k.alternate)
}

var c09Configs []c09Cfg

func init() {
	seps := [][]rune{{','}, {';', ','}, {'\t'}, {'→'}, {0xa6}}
	quotes := [][]rune{{'"'}, {'\'', '"'}, {'”'}, {0xab, 0xff}}
	eols := []string{"\n", "\r", "\r\n", "\n\r"}
	for _, s := range seps {
		for _, q := range quotes {
			for _, e := range eols {
				for _, always := range []bool{false, true} {
					for us := range s {
						for uq := range q {
							c09Configs = append(c09Configs, c09Cfg{seps: s, quotes: q, eol: e, always: always, useSep: us, useQuote: uq})
							if len(s) > 1 || len(q) > 1 {
								c09Configs = append(c09Configs, c09Cfg{seps: s, quotes: q, eol: e, always: always, useSep: us, useQuote: uq, alternate: true})
							}
						}
					}
				}
			}
		}
	}
}

func init() {
	// width pump + reconfiguration: lists of 5 and 6 separators / quote symbols, set on a tokenizer that
	// was configured with a list differing in one (first, last) member and used before
	type rc struct{ pre, now string }
	for _, e := range []string{"\n", "\r\n"} {
		for _, always := range []bool{false, true} {
			for _, x := range []rc{{",;\t|:", "#;\t|:"}, {"#;\t|:", ",;\t|:"}, {",;\t|:", ",;\t|#"}, {",;\t|:~", "#;\t|:~"}, {";", "#;\t|:"}} {
				for us := 0; us < len([]rune(x.now)); us += len([]rune(x.now)) - 1 {
					c09Configs = append(c09Configs, c09Cfg{seps: []rune(x.now), quotes: []rune{'"'}, eol: e, always: always, useSep: us, preSeps: []rune(x.pre), preQuotes: []rune{'"'}})
				}
			}
			// neighbouring code points above U+00FF, listed in descending and in ascending order
			for _, pair := range []string{"\uff1b\uff1a", "\uff1a\uff1b", "\u0101\u0100"} {
				for us := 0; us < 2; us++ {
					c09Configs = append(c09Configs, c09Cfg{seps: []rune(pair), quotes: []rune{'"'}, eol: e, always: always, useSep: us})
				}
			}
			for _, pair := range []string{"\u300d\u300c", "\u300c\u300d"} {
				for uq := 0; uq < 2; uq++ {
					c09Configs = append(c09Configs, c09Cfg{seps: []rune{','}, quotes: []rune(pair), eol: e, always: always, useQuote: uq})
				}
			}
			for _, x := range []rc{{"\"'”«‹", "»'”«‹"}, {"»'”«‹", "\"'”«‹"}, {"\"'”«‹", "\"'”«›"}} {
				for uq := 0; uq < len([]rune(x.now)); uq += len([]rune(x.now)) - 1 {
					c09Configs = append(c09Configs, c09Cfg{seps: []rune{','}, quotes: []rune(x.now), eol: e, always: always, useQuote: uq, preSeps: []rune{','}, preQuotes: []rune(x.pre)})
				}
			}
		}
	}
}

func c09Write(table [][]string, k c09Cfg) string {
	var sb strings.Builder
	q := string(k.quotes[k.useQuote])
	n := 0
	for ri, row := range table {
		if ri > 0 {
			sb.WriteString(k.eol)
		}
		for fi, f := range row {
			sep := k.seps[k.useSep]
			if k.alternate {
				q = string(k.quotes[(k.useQuote+n)%len(k.quotes)])
				sep = k.seps[(k.useSep+n)%len(k.seps)]
			}
			n++
			if fi > 0 {
				sb.WriteRune(sep)
			}
			need := k.always || strings.ContainsAny(f, "\r\n"+string(k.seps)+string(k.quotes))
			if need {
				sb.WriteString(q + strings.ReplaceAll(f, q, q+q) + q)
			} else {
				sb.WriteString(f)
			}
		}
	}
	return sb.String()
}

func tableStr(t [][]string) string {
	rows := []string{}
	for _, r := range t {
		rows = append(rows, fmt.Sprintf("%q", r))
	}
	return "[" + strings.Join(rows, " ") + "]"
}

var c09Tok = map[int]*csv.CsvTokenizer{}

// c09Order picks the history of setter calls that configures the tokenizer; the default configuration
// (one comma, one double quote) is also used as constructed, without any setter call
func c09Order(ci int, k c09Cfg, text string) int {
	if len(k.seps) == 1 && k.seps[0] == ',' && len(k.quotes) == 1 && k.quotes[0] == '"' {
		return (ci + len(text)) % 5
	}
	return (ci + len(text)) % 4
}

func c09Tokenizer(ci int, order int, k c09Cfg, fresh bool) *csv.CsvTokenizer {
	if !fresh {
		if t, ok := c09Tok[ci*5+order]; ok {
			return t
		}
	}
	t := csv.NewCsvTokenizer()
	if k.preSeps != nil {
		// an earlier configuration, used once
		t.SetFieldSeparators(k.preSeps)
		t.SetQuoteSymbols(k.preQuotes)
		t.SetDecodeStrings(true)
		fw.Try(func() { t.TokenizeBuffer("a" + string(k.preSeps[0]) + string(k.preQuotes[0]) + "b" + string(k.preQuotes[0]) + "\n") })
	}
	// the setters are called in one of four orders (a configuration is a history of setter calls)
	switch order {
	case 0:
		// separators first, both lists being parts of ONE array the caller owns (see case 1)
		dialect := append(append(make([]rune, 0, len(k.seps)+len(k.quotes)+2), k.seps...), k.quotes...)
		dialect = append(dialect, '~', '~')
		t.SetFieldSeparators(dialect[:len(k.seps)])
		t.SetQuoteSymbols(dialect[len(k.seps) : len(k.seps)+len(k.quotes)])
	case 1:
		// both lists are parts of ONE array the caller owns: the separators have spare capacity whose
		// content (the quote symbols) the library must leave alone
		dialect := append(append(make([]rune, 0, len(k.seps)+len(k.quotes)+2), k.seps...), k.quotes...)
		dialect = append(dialect, '~', '~')
		t.SetQuoteSymbols(dialect[len(k.seps) : len(k.seps)+len(k.quotes)])
		t.SetFieldSeparators(dialect[:len(k.seps)])
	case 2:
		// the line ending used for writing is set first (one of LF, CR, CR LF): reading takes each of the
		// four line endings as one end-of-line token whatever it is
		t.SetEndOfLine([]string{"\n", "\r", "\r\n"}[ci%3])
		t.SetQuoteSymbols(k.quotes)
		t.SetFieldSeparators(k.seps)
		t.SetFieldSeparators(k.seps) // the same set applied again
	case 4:
		// as constructed
	case 3:
		dialect := append(append(make([]rune, 0, len(k.seps)+len(k.quotes)), k.quotes...), k.seps...)
		t.SetFieldSeparators(dialect[len(k.quotes):])
		t.SetQuoteSymbols(dialect[:len(k.quotes)])
		t.SetQuoteSymbols(dialect[:len(k.quotes)])
		t.SetFieldSeparators(append([]rune{}, k.seps...))
	}
	t.SetDecodeStrings(true)
	if !fresh {
		c09Tok[ci*5+order] = t
	}
	return t
}

func c09Run(c *fw.Ctx, table [][]string, ci int) {
	k := c09Configs[ci]
	text := c09Write(table, k)
	run := func(fresh bool) (string, [][]string, int) {
		var t *csv.CsvTokenizer
		var toks []*tokenizers.Token
		pv := fw.Try(func() {
			t = c09Tokenizer(ci, c09Order(ci, k, text), k, fresh)
			toks = t.TokenizeBuffer(text)
		})
		if pv != nil {
			delete(c09Tok, ci*5+c09Order(ci, k, text))
			return "panic: " + panicShort(pv), nil, 0
		}
		rows := [][]string{{""}}
		eols := 0
		for _, tk := range toks {
			switch tk.Type() {
			case tokenizers.Eof:
			case tokenizers.Eol:
				rows = append(rows, []string{""})
				eols++
			case tokenizers.Symbol:
				isSep := false
				for _, s := range k.seps {
					if tk.Value() == string(s) {
						isSep = true
					}
				}
				if !isSep {
					return fmt.Sprintf("unexpected symbol token %q", tk.Value()), nil, 0
				}
				rows[len(rows)-1] = append(rows[len(rows)-1], "")
			case tokenizers.Word, tokenizers.Quoted:
				r := rows[len(rows)-1]
				r[len(r)-1] += tk.Value()
			default:
				return fmt.Sprintf("unexpected %s token %q", tokTypeName(tk.Type()), tk.Value()), nil, 0
			}
		}
		return "", rows, eols
	}
	msg, rows, eols := run(false)
	c.Eval(1)
	bad := msg != "" || tableStr(rows) != tableStr(table) || eols != len(table)-1
	if bad {
		// decide on a fresh tokenizer (reuse is C05's subject)
		msg, rows, eols = run(true)
		bad = msg != "" || tableStr(rows) != tableStr(table) || eols != len(table)-1
		if !bad {
			c.Violation("csv-only-on-reused-tokenizer", "table %s with %s: differs on a reused tokenizer only", tableStr(table), k)
			return
		}
	}
	if bad {
		sig := "csv-roundtrip-differs"
		joined := strings.Join(flatten(table), "")
		switch {
		case strings.HasPrefix(msg, "panic"):
			sig = "csv-tokenizer-panics"
		case msg != "":
			sig = "csv-unexpected-token"
		case eols != len(table)-1:
			sig = "csv-line-ending-not-one-eol:" + fmt.Sprintf("%q", k.eol)
		case strings.ContainsAny(joined, "яé￾”→"):
			sig = "csv-roundtrip-differs:non-latin"
		}
		c.Violation(sig, "table %s with %s written as %q: %s read back as %s (%d end-of-line tokens)", tableStr(table), k, text, msg, tableStr(rows), eols)
		return
	}
	if len(table) > 1 || len(table[0]) > 1 {
		c.Nontrivial()
	}
	c.Outcome(fmt.Sprintf("eol=%q,always=%v", k.eol, k.always))
}

func flatten(t [][]string) []string {
	out := []string{}
	for _, r := range t {
		out = append(out, r...)
	}
	return out
}

func c09Table(pool []string, rows, cols int, idx int64) [][]string {
	n := int64(len(pool))
	t := make([][]string, rows)
	for r := 0; r < rows; r++ {
		t[r] = make([]string, cols)
		for cidx := 0; cidx < cols; cidx++ {
			t[r][cidx] = pool[idx%n]
			idx /= n
		}
	}
	return t
}

func ipow(b int64, e int) int64 {
	r := int64(1)
	for i := 0; i < e; i++ {
		r *= b
	}
	return r
}

func init() {
	fw.Register(&fw.Check{
		ID:    "C09",
		Level: "model_checking",
		Rule: "tables of 1..2 rows x 1..2 columns (thorough: also 3x2 over a reduced pool) with fields from a 22-string pool (empty, blanks, every separator and quote symbol, doubled quotes, LF, CR, CRLF, embedded line break, Latin-1, non-Latin, U+FFFE) x 144+ configurations (4 separator sets incl. TAB and U+2192, 3 quote sets incl. U+201D, 4 line endings, quote-when-needed / always-quote, the configuration setters called in four different orders (incl. the same set applied twice), every choice of the configured separator and quote used by the writer, fixed for the document or rotating field by field); " +
			"oracle: reference writer, then TokenizeBuffer with string decoding, regrouped (Eol = row break, separator symbol = field break, Word/Quoted values concatenate) equals the table, and each line ending is exactly one Eol token; plus tables of up to 257 (thorough 1000) rows or columns whose fields cycle through the pool from every offset; non-trivial = tables with more than one field",
		Assume: []string{"characters above U+FFFE are outside the configured range and not used", "the document has no trailing line ending"},
		Spaces: func(tier string) []fw.Space {
			nc := int64(len(c09Configs))
			type shape struct {
				pool       []string
				rows, cols int
			}
			shapes := []shape{{c09Fields, 1, 1}, {c09Fields, 1, 2}, {c09Fields, 2, 1}, {c09FieldsSmall, 2, 2}}
			if tier == "thorough" {
				shapes = []shape{{c09Fields, 1, 1}, {c09Fields, 1, 2}, {c09Fields, 2, 1}, {c09Fields, 2, 2}, {c09FieldsSmall, 3, 2}, {c09Fields, 1, 3}}
			}
			sp := []fw.Space{}
			for _, s := range shapes {
				s := s
				nt := ipow(int64(len(s.pool)), s.rows*s.cols)
				sp = append(sp, fw.Space{Name: fmt.Sprintf("tables-%dx%d-pool%d", s.rows, s.cols, len(s.pool)), N: nt * nc,
					Run: func(c *fw.Ctx, i int64) { c09Run(c, c09Table(s.pool, s.rows, s.cols, i/nc), int(i%nc)) },
					Repr: func(i int64) string {
						return fmt.Sprintf("table %s with %s", tableStr(c09Table(s.pool, s.rows, s.cols, i/nc)), c09Configs[i%nc])
					}})
			}
			// pumped tables: r x c tables whose fields cycle through the pool starting at every offset
			dims := [][2]int{{1, 3}, {1, 9}, {1, 65}, {1, 257}, {3, 1}, {9, 1}, {65, 1}, {257, 1}, {4, 4}, {17, 5}, {33, 33}}
			if tier == "thorough" {
				dims = append(dims, [2]int{1, 1000}, [2]int{1000, 1}, [2]int{100, 100})
			}
			nOff := int64(len(c09Fields))
			sp = append(sp, fw.Space{Name: "pumped-tables", N: int64(len(dims)) * nOff * nc, Timeout: 300e9,
				Run: func(c *fw.Ctx, i int64) {
					d := dims[i/(nOff*nc)]
					off := int(i / nc % nOff)
					t := make([][]string, d[0])
					k := off
					for r := range t {
						t[r] = make([]string, d[1])
						for f := range t[r] {
							t[r][f] = c09Fields[k%len(c09Fields)]
							k += 1 + (r+f)%3
						}
					}
					c09Run(c, t, int(i%nc))
				},
				Repr: func(i int64) string {
					d := dims[i/(nOff*nc)]
					return fmt.Sprintf("%dx%d table cycling through the field pool from offset %d with %s", d[0], d[1], i/nc%nOff, c09Configs[i%nc])
				}})
			return sp
		},
		Bounds: func(tier string) string {
			if tier == "thorough" {
				return fmt.Sprintf("pumped tables up to 1000 fields per row / 1000 rows; all 1x1,1x2,2x1,2x2,1x3 tables over 22 fields and 3x2 tables over 8 fields x %d configurations", len(c09Configs))
			}
			return fmt.Sprintf("all 1x1,1x2,2x1 tables over 22 fields and 2x2 tables over 8 fields x %d configurations", len(c09Configs))
		},
	})
}
