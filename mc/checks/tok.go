package checks

import (
	"fmt"
	"strings"

	ctok "github.com/pip-services3-gox/pip-services3-expressions-gox/calculator/tokenizers"
	"github.com/pip-services3-gox/pip-services3-expressions-gox/csv"
	rio "github.com/pip-services3-gox/pip-services3-expressions-gox/io"
	mtok "github.com/pip-services3-gox/pip-services3-expressions-gox/mustache/tokenizers"
	"github.com/pip-services3-gox/pip-services3-expressions-gox/tokenizers"
	"github.com/pip-services3-gox/pip-services3-expressions-gox/tokenizers/generic"
)

// Shared tokenizer harness: the four built-in tokenizers, the seven options,
// a counting scanner (deterministic step budget instead of a wall clock).

var tokKinds = []string{"generic", "expression", "csv", "mustache"}

// tokKindsExt adds differently configured instances of the built-in tokenizers
var tokKindsExt = []string{"generic", "expression", "csv", "mustache", "csv+latin1", "csv+wide"}

// tokKindsCustom: the generic and the expression tokenizer with symbols and a whitespace character of the
// user's own (C04, C12, C15 enumerate strings over customAlphabet for them)
var tokKindsCustom = []string{"generic+custom", "expression+custom"}
var customAlphabet = []rune("a=:~->1 \u00a0#\n")

func newTokenizer(kind string) tokenizers.ITokenizer {
	switch kind {
	case "generic":
		return generic.NewGenericTokenizer()
	case "expression":
		return ctok.NewExpressionTokenizer()
	case "csv":
		return csv.NewCsvTokenizer()
	case "mustache":
		return mtok.NewMustacheTokenizer()
	case "csv+latin1":
		// separator and quote symbol from the Latin-1 supplement (two UTF-8 bytes, below U+0100)
		t := csv.NewCsvTokenizer()
		t.SetFieldSeparators([]rune{0xa6})
		t.SetQuoteSymbols([]rune{0xab, 0xff})
		return t
	case "csv+wide":
		t := csv.NewCsvTokenizer()
		t.SetFieldSeparators([]rune{0x2192, ';'})
		t.SetQuoteSymbols([]rune{0x201d, '\''})
		return t
	case "generic+custom", "expression+custom":
		// configured through the public setters: further symbols - one with a prefix that is no symbol
		// ("=:~" without "=:"), some starting with the sign - and a whitespace character (NBSP) the
		// dispatch table does not start a whitespace on
		t := newTokenizer(strings.SplitN(kind, "+", 2)[0])
		for _, sym := range []string{"=:~", "->", "-=", "~~>"} {
			t.SymbolState().Add(sym, tokenizers.Symbol)
		}
		t.WhitespaceState().SetWhitespaceChars(0xa0, 0xa0, true)
		return t
	case "generic+typedsym":
		// symbols registered with token types of the user's choice, an end marker among them
		t := generic.NewGenericTokenizer()
		t.SymbolState().Add(";", tokenizers.Eof)
		t.SymbolState().Add("::", tokenizers.Keyword)
		t.SymbolState().Add("@@", tokenizers.Word)
		t.SymbolState().Add("$", tokenizers.Whitespace)
		return t
	case "generic+cpp":
		// the generic tokenizer configured with the library's C++ comment state ('/*..*/' and '//..')
		t := generic.NewGenericTokenizer()
		t.SetCommentState(generic.NewCppCommentState())
		t.SetCharacterState('/', '/', t.CommentState())
		return t
	}
	panic("unknown tokenizer " + kind)
}

// option bits
const (
	optSkipUnknown = 1 << iota
	optDecode
	optSkipComments
	optSkipWhitespaces
	optMerge
	optUnify
	optSkipEof
)

var optNames = []string{"skipUnknown", "decodeStrings", "skipComments", "skipWhitespaces", "mergeWhitespaces", "unifyNumbers", "skipEof"}

func optStr(o int) string {
	if o == 0 {
		return "{}"
	}
	p := []string{}
	for i, n := range optNames {
		if o&(1<<i) != 0 {
			p = append(p, n)
		}
	}
	return "{" + strings.Join(p, ",") + "}"
}

func setOptions(t tokenizers.ITokenizer, o int) {
	t.SetSkipUnknown(o&optSkipUnknown != 0)
	t.SetDecodeStrings(o&optDecode != 0)
	t.SetSkipComments(o&optSkipComments != 0)
	t.SetSkipWhitespaces(o&optSkipWhitespaces != 0)
	t.SetMergeWhitespaces(o&optMerge != 0)
	t.SetUnifyNumbers(o&optUnify != 0)
	t.SetSkipEof(o&optSkipEof != 0)
}

type budgetExceeded struct{}

// countScanner wraps the real StringScanner and counts calls.
type countScanner struct {
	s       *rio.StringScanner
	steps   int
	budget  int
	unreads int
}

func newCountScanner(text string) *countScanner {
	n := len([]rune(text))
	return &countScanner{s: rio.NewStringScanner(text), budget: 64 * (n + 2)}
}
func (c *countScanner) tick() {
	c.steps++
	if c.steps > c.budget {
		panic(budgetExceeded{})
	}
}
func (c *countScanner) Read() rune       { c.tick(); return c.s.Read() }
func (c *countScanner) Line() int        { return c.s.Line() }
func (c *countScanner) Column() int      { return c.s.Column() }
func (c *countScanner) Peek() rune       { c.tick(); return c.s.Peek() }
func (c *countScanner) PeekLine() int    { return c.s.PeekLine() }
func (c *countScanner) PeekColumn() int  { return c.s.PeekColumn() }
func (c *countScanner) Unread()          { c.tick(); c.unreads++; c.s.Unread() }
func (c *countScanner) UnreadMany(n int) { c.tick(); c.unreads += n; c.s.UnreadMany(n) }
func (c *countScanner) Reset()           { c.s.Reset() }

type tokRec struct {
	typ       int
	val       string
	line, col int
}

func (t tokRec) String() string { return fmt.Sprintf("%s%q@%d:%d", tokTypeName(t.typ), t.val, t.line, t.col) }

var tokTypeNames = []string{"Unknown", "Eof", "Eol", "Float", "Integer", "HexDecimal", "Number", "Symbol", "Quoted", "Word", "Keyword", "Whitespace", "Comment", "Special"}

func tokTypeName(t int) string {
	if t >= 0 && t < len(tokTypeNames) {
		return tokTypeNames[t]
	}
	return fmt.Sprintf("T%d", t)
}

func tokStr(ts []tokRec) string {
	p := []string{}
	for _, t := range ts {
		p = append(p, t.String())
	}
	return "[" + strings.Join(p, " ") + "]"
}

func tokShort(ts []tokRec) string {
	p := []string{}
	for _, t := range ts {
		p = append(p, fmt.Sprintf("%s%q", tokTypeName(t.typ), t.val))
	}
	return "[" + strings.Join(p, " ") + "]"
}

type tokResult struct {
	toks    []tokRec
	panic   interface{} // recovered panic (budgetExceeded{} = non-termination)
	unreads int
	hasNil  bool
}

func (r tokResult) failed() bool { return r.panic != nil }
func (r tokResult) failStr() string {
	if _, ok := r.panic.(budgetExceeded); ok {
		return "does not terminate (scanner step budget 64*(len+2) exhausted)"
	}
	return "panic: " + panicShort(r.panic)
}

func panicShort(p interface{}) string {
	s := fmt.Sprint(p)
	if len(s) > 140 {
		s = s[:140]
	}
	return s
}

// tokenizeOn runs TokenizeStream on an existing tokenizer through the counting scanner.
func tokenizeOn(t tokenizers.ITokenizer, text string) (res tokResult) {
	sc := newCountScanner(text)
	defer func() {
		if p := recover(); p != nil {
			res.panic = p
		}
		res.unreads = sc.unreads
	}()
	// token cap as a second line of defence (a loop that does not touch the scanner)
	t.SetReader(sc)
	limit := 4*len([]rune(text)) + 8
	for {
		tk := t.NextToken()
		if tk == nil {
			break
		}
		res.toks = append(res.toks, tokRec{tk.Type(), tk.Value(), tk.Line(), tk.Column()})
		if len(res.toks) > limit {
			panic(budgetExceeded{})
		}
	}
	return res
}

// tokenizeOnTwice: one scanner, tokenized to the end, rewound with Reset() and tokenized again.
func tokenizeOnTwice(t tokenizers.ITokenizer, text string) (first, second tokResult) {
	sc := newCountScanner(text)
	pass := func() (res tokResult) {
		defer func() {
			if p := recover(); p != nil {
				res.panic = p
			}
			res.unreads = sc.unreads
		}()
		t.SetReader(sc)
		limit := 4*len([]rune(text)) + 8
		for {
			tk := t.NextToken()
			if tk == nil {
				break
			}
			res.toks = append(res.toks, tokRec{tk.Type(), tk.Value(), tk.Line(), tk.Column()})
			if len(res.toks) > limit {
				panic(budgetExceeded{})
			}
		}
		return res
	}
	first = pass()
	if first.failed() {
		return first, first
	}
	sc.Reset()
	sc.steps = 0
	second = pass()
	return first, second
}

// tokenizeWithNoopSetters iterates with HasNextToken()/NextToken() and, between the look-ahead and
// the fetch, calls setters that change nothing: mode 1 re-applies the current option set, mode 2
// re-registers the state the table already holds for a few characters (and, for CSV, hands the current
// separator and quote lists back in). The stream must be what an undisturbed iteration gives.
func tokenizeWithNoopSetters(t tokenizers.ITokenizer, opts int, text string, mode int) (res tokResult) {
	sc := newCountScanner(text)
	defer func() {
		if p := recover(); p != nil {
			res.panic = p
		}
		res.unreads = sc.unreads
	}()
	t.SetReader(sc)
	limit := 4*len([]rune(text)) + 8
	noop := func() {
		switch mode {
		case 1:
			setOptions(t, opts)
		case 2:
			type table interface {
				GetCharacterState(symbol rune) tokenizers.ITokenizerState
				SetCharacterState(fromSymbol rune, toSymbol rune, state tokenizers.ITokenizerState)
			}
			if tb, ok := t.(table); ok {
				for _, ch := range []rune{'a', ',', '"', ' ', '<', 0x100} {
					tb.SetCharacterState(ch, ch, tb.GetCharacterState(ch))
				}
			}
			if ct, ok := t.(*csv.CsvTokenizer); ok {
				ct.SetFieldSeparators(append([]rune{}, ct.FieldSeparators()...))
				ct.SetQuoteSymbols(append([]rune{}, ct.QuoteSymbols()...))
			}
		}
	}
	for {
		more := t.HasNextToken()
		noop()
		tk := t.NextToken()
		if tk == nil {
			break
		}
		_ = more
		res.toks = append(res.toks, tokRec{tk.Type(), tk.Value(), tk.Line(), tk.Column()})
		if len(res.toks) > limit {
			panic(budgetExceeded{})
		}
	}
	return res
}

func tokenize(kind string, opts int, text string) tokResult {
	t := newTokenizer(kind)
	setOptions(t, opts)
	return tokenizeOn(t, text)
}
