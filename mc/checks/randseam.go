package checks

import (
	"math/rand"
	"sync/atomic"
	_ "unsafe" // go:linkname
)

// Seam into the process-wide generator of math/rand (the source of Rnd()/Random()): the harness
// decides every draw. Linked with -ldflags=-checklinkname=0 (run_check.sh). If the library moves to
// another random source the seam simply has no effect and the space below reports so.

//go:linkname globalRandGenerator math/rand.globalRandGenerator
var globalRandGenerator atomic.Pointer[rand.Rand]

type scriptedSource struct {
	vals []int64
	i    int
}

// after the script: ordinary mid-range draws (a generator stuck on one extreme value would make the
// standard library's own resampling loops spin forever, which no real source does)
func (s *scriptedSource) Int63() int64 {
	s.i++
	if s.i <= len(s.vals) {
		return s.vals[s.i-1]
	}
	return 1<<62 + int64(s.i)*7919
}
func (s *scriptedSource) Seed(int64)   {}

// withScriptedRandom runs f with the global generator answering the scripted 63-bit draws, then mid-range ones;
// it returns how many draws were consumed.
func withScriptedRandom(vals []int64, f func()) int {
	src := &scriptedSource{vals: vals}
	old := globalRandGenerator.Load()
	globalRandGenerator.Store(rand.New(src))
	defer globalRandGenerator.Store(old)
	f()
	return src.i
}

// boundary draws: both ends, the largest draws that still give a float64 / float32 below one after
// scaling, one step either side of them, a middle value
var randomDraws = []int64{0, 1, 1 << 62, 1<<63 - 1, 1<<63 - 1024, 1<<63 - 1025, 1<<63 - 2048, 1<<63 - 1<<38, 1<<63 - 1<<39, 1<<63 - 1<<39 - 1, 1<<63 - 1<<40, 1<<53 - 1, 1 << 53, 0x7fffffff00000000, 0x00000000ffffffff}
