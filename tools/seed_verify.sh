#!/bin/bash
# usage: seed_verify.sh <property> <seed-dir-with-SEED/> <name> <tier> <check-id>...
# Confirms a seeded change independently (fresh scratch worktree): demo passes on the
# original, the repo's tests still pass with the change, the demo fails with it; then runs
# the given checks (those of the /verif snapshot in $SEED_VERIFY_CHECKS, default /verif itself) against the changed tree. Stores the seed under /verif/seeded/<property>-<name>/.
set -u
P=$1; SRC=$2; NAME=$3; TIER=$4; shift 4
export GOFLAGS=-mod=mod GOPROXY=off GOSUMDB=off GOTOOLCHAIN=local TZ=UTC
WT=$(mktemp -d /tmp/sv-XXXXXX); OUT=$(mktemp -d /tmp/svo-XXXXXX); rmdir "$WT"
git -C /repo worktree add -q --detach "$WT" HEAD || exit 2
cleanup() { git -C /repo worktree remove --force "$WT" 2>/dev/null; rm -rf "$WT" "$OUT"; git -C /repo worktree prune; }
trap cleanup EXIT
mkdir -p "$WT/test/seeddemo"; cp "$SRC/SEED/demo_test.go" "$WT/test/seeddemo/seed_demo_test.go"
( cd "$WT" && go test -vet=off -count=1 ./test/seeddemo/ >"$OUT/demo_orig.log" 2>&1 ); d0=$?
git -C "$WT" apply "$SRC/SEED/patch.diff" || { echo "patch does not apply"; exit 2; }
( cd "$WT" && go build ./... ) || { echo "does not compile"; exit 2; }
( cd "$WT" && go test -vet=off -count=1 ./test/seeddemo/ >"$OUT/demo_patched.log" 2>&1 ); d1=$?
rm -rf "$WT/test/seeddemo"
tests=$(/verif/tools/repo_tests.sh "$WT" | tail -1)
echo "demo on original: exit=$d0 (0 expected) | demo with change: exit=$d1 (non-zero expected) | repo tests with change: $tests"
caught=""; missed=""
for id in "$@"; do
  VERIF_REPO="$WT" VERIF_OUT="$OUT" VERIF_GOCACHE=/verif/.gocache ${SEED_VERIFY_CHECKS:-/verif}/run_check.sh "$id" "$TIER" > "$OUT/log.$id" 2>&1; rc=$?
  sigs=$(grep "^  \[$id\]" "$OUT/log.$id" | sed "s/^  \[$id\] //" | tr '\n' ';')
  echo "check $id $TIER: exit=$rc signatures: $sigs"
  grep -A2 "^  \[$id\]" "$OUT/log.$id" | sed -n '2,3p' | cut -c1-400
  if [ $rc -eq 1 ]; then caught="$caught $id"; else missed="$missed $id"; fi
done
D=/verif/seeded/$P-$NAME; mkdir -p "$D"
cp "$SRC/SEED/patch.diff" "$D/patch.diff"; cp "$SRC/SEED/demo_test.go" "$D/demo_test.go"
python3 - "$SRC/SEED/meta.json" "$D/meta.json" "$P" "$d0" "$d1" "$tests" "$TIER" "$caught" "$missed" <<'PY'
import json,sys
src,dst,p,d0,d1,tests,tier,caught,missed=sys.argv[1:]
try: m=json.load(open(src))
except Exception: m={}
out={"property":p,"summary":m.get("summary"),"needs_to_manifest":m.get("needs_to_manifest"),"files_changed":m.get("files_changed"),
 "author":"independent sub-agent given only the property text and a scratch worktree","author_verification":m.get("how_verified"),
 "confirmed":{"demo_passes_on_original":d0=="0","demo_fails_with_change":d1!="0","repo_tests_with_change":tests,
   "how":"tools/seed_verify.sh: fresh scratch worktree of /repo HEAD, demo test run before and after git apply, tools/repo_tests.sh on the changed tree, then ./run_check.sh <id> %s with VERIF_REPO pointing at the changed tree"%tier},
 "checks_that_report_it":caught.split(),"checks_run_that_stay_silent":missed.split()}
json.dump(out,open(dst,"w"),indent=1,ensure_ascii=False)
PY
echo "stored in $D (caught by:$caught; silent:$missed)"
