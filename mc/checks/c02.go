package checks

import (
	"fmt"
	"strings"

	"verifmc/fw"

	cerr "github.com/pip-services3-gox/pip-services3-commons-gox/errors"
	"github.com/pip-services3-gox/pip-services3-expressions-gox/calculator/parsers"
)

// C02 — the parser accepts exactly the expression grammar and rejects everything else.

func vtokText(toks []vtok) string {
	p := make([]string, len(toks))
	for i, t := range toks {
		p[i] = t.text
	}
	return strings.Join(p, " ")
}

var c02Parser *parsers.ExpressionParser

func c02Check(c *fw.Ctx, toks []vtok, origin string) {
	text := vtokText(toks)
	verdict, tree := recognise(toks)
	if c02Parser == nil {
		c02Parser = parsers.NewExpressionParser()
	}
	p := c02Parser
	var err error
	pv := fw.Try(func() { err = p.ParseString(text) })
	c.Eval(1)
	if pv != nil {
		c02Parser = nil // never reuse an instance that panicked mid-parse
		sig := "parser-panics-on-rejected-input"
		if verdict == "accept" {
			sig = "parser-panics-on-valid-sentence"
		}
		c.Violation(sig, "%sParseString(%q) panics: %s (reference verdict: %s)", origin, text, panicShort(pv), verdict)
		return
	}
	c.Outcome(verdict + "/" + map[bool]string{true: "accepted", false: "rejected"}[err == nil])
	switch verdict {
	case "accept":
		c.Nontrivial()
		if err != nil {
			c.Violation("valid-sentence-rejected", "%sParseString(%q) fails with %s; it is a sentence of the grammar: %s", origin, text, errStr(err), rtokStr(postorderOf(tree)))
			return
		}
		if msg := sameProgram(p.ResultTokens(), postorderOf(tree)); msg != "" {
			c.Violation("valid-sentence-miscompiled", "%sParseString(%q): %s; compiled [%s], post-order of the tree is [%s]", origin, text, msg, programStr(p.ResultTokens()), rtokStr(postorderOf(tree)))
		}
	case "reject":
		if err != nil {
			// resubmitting the same rejected text to the same parser must reject it again
			var err2 error
			if pv := fw.Try(func() { err2 = p.ParseString(text) }); pv != nil || err2 == nil {
				c.Violation("rejected-input-accepted-on-resubmission", "%sParseString(%q) is rejected (%s) but the same parser accepts the same text when it is submitted again (panic %v) and exposes [%s]", origin, text, errStr(err), pv, programStr(p.ResultTokens()))
				return
			}
		}
		if err == nil {
			c.Violation(c02AcceptSig(toks), "%sParseString(%q) accepts a token sequence that is not a sentence of the grammar and compiles it to [%s]", origin, text, programStr(p.ResultTokens()))
			return
		}
		ae, ok := err.(*cerr.ApplicationError)
		if !ok || ae == nil || ae.Code == "" {
			c.Violation("rejection-without-error-code", "%sParseString(%q) fails with %v, which carries no error code (error objects returned earlier were overwritten by the caller; a shared error object would show that)", origin, text, err)
		}
		errStrS(err) // the caller owns the error it was handed and overwrites it
	case "unspecified":
		if err == nil {
			if msg := sameProgram(p.ResultTokens(), postorderOf(tree)); msg != "" {
				c.Violation("lenient-sentence-miscompiled", "%sParseString(%q) (trailing comma) accepted but %s", origin, text, msg)
			}
		}
	}
}

// c02AcceptSig names what was silently reinterpreted.
func c02AcceptSig(toks []vtok) string {
	kinds := map[string]bool{}
	for _, t := range toks {
		kinds[t.kind] = true
	}
	for i := 0; i+1 < len(toks); i++ {
		if toks[i].kind == "[" {
			for j := i + 1; j < len(toks); j++ {
				if toks[j].kind == "]" {
					break
				}
				if toks[j].kind == ")" || j == len(toks)-1 {
					return "non-sentence-accepted:missing-close-bracket"
				}
			}
		}
	}
	if kinds["NULL"] || kinds["LIKE"] || kinds["IN"] {
		return "non-sentence-accepted:multi-token-operator"
	}
	return "non-sentence-accepted"
}

// ---- single-edit neighbourhood of valid sentences

func c02Sentences(tier string) [][]vtok {
	trees := c01Trees(tier)
	step := 1
	if tier == "quick" {
		step = len(trees)/400 + 1
	} else {
		step = len(trees)/4000 + 1
	}
	out := [][]vtok{}
	byText := map[string]vtok{}
	for _, v := range exprVocab {
		byText[v.text] = v
	}
	for i := 0; i < len(trees); i += step {
		toks := []string{}
		trees[i].tokens(printStyle{}, &toks)
		if len(toks) > 9 {
			continue
		}
		vt := make([]vtok, len(toks))
		ok := true
		for k, t := range toks {
			v, found := byText[t]
			switch {
			case found:
				vt[k] = v
			case t == "b" || t == "c" || t == "F" || t == "G":
				vt[k] = vtok{t, "IDENT", nil}
			case t == "2":
				vt[k] = vtok{"2", "CONST", 2}
			default:
				ok = false
			}
		}
		if ok {
			out = append(out, vt)
		}
	}
	return out
}

func c02Edits(s []vtok) [][]vtok {
	out := [][]vtok{}
	cp := func(x []vtok) []vtok { return append([]vtok{}, x...) }
	for i := 0; i <= len(s); i++ { // insert
		for _, v := range exprVocab {
			e := append(cp(s[:i]), v)
			out = append(out, append(e, s[i:]...))
		}
	}
	for i := range s {
		out = append(out, append(cp(s[:i]), s[i+1:]...)) // delete
		for _, v := range exprVocab {                     // replace
			if v.text != s[i].text {
				e := cp(s)
				e[i] = v
				out = append(out, e)
			}
		}
		out = append(out, append(append(cp(s[:i+1]), s[i]), s[i+1:]...)) // duplicate
		for l := 2; l <= 4 && i+l <= len(s); l++ {
			// a block of 2..4 tokens written twice (a second index group, a second argument list, a
			// repeated operator-operand pair) and the block left out
			e := append(cp(s[:i+l]), s[i:i+l]...)
			out = append(out, append(e, s[i+l:]...))
			out = append(out, append(cp(s[:i]), s[i+l:]...))
		}
		if i+1 < len(s) {
			e := cp(s)
			e[i], e[i+1] = e[i+1], e[i]
			out = append(out, e)
		}
	}
	return out
}

// pumped sentences: deep nesting and long chains, valid and with one defect deep inside
func c02Pumped(shape int, n int, defect bool) []vtok {
	byText := map[string]vtok{}
	for _, v := range exprVocab {
		byText[v.text] = v
	}
	tk := func(t string) vtok {
		if v, ok := byText[t]; ok {
			return v
		}
		return vtok{t, "IDENT", nil}
	}
	out := []vtok{}
	add := func(ts ...string) {
		for _, t := range ts {
			out = append(out, tk(t))
		}
	}
	switch shape {
	case 0: // ((((a))))
		for i := 0; i < n; i++ {
			add("(")
		}
		add("a")
		for i := 0; i < n; i++ {
			if defect && i == n/2 {
				continue
			}
			add(")")
		}
	case 1: // a + a + a ...
		add("a")
		for i := 0; i < n; i++ {
			add([]string{"+", "*", "AND", "=", "^"}[i%5])
			if defect && i == n/2 {
				add("*")
			}
			add("a")
		}
	case 2: // F(F(F(a)))
		for i := 0; i < n; i++ {
			add("F", "(")
		}
		add("a")
		for i := 0; i < n; i++ {
			if defect && i == n/2 {
				add("]")
				continue
			}
			add(")")
		}
	case 3: // a[a[a[1]]]
		for i := 0; i < n; i++ {
			add("a", "[")
		}
		add("1")
		for i := 0; i < n; i++ {
			if defect && i == n/2 {
				add(")")
				continue
			}
			add("]")
		}
	case 4: // F(1,1,1,...)
		add("F", "(")
		for i := 0; i < n; i++ {
			if i > 0 {
				add(",")
				if defect && i == n/2 {
					add(",")
				}
			}
			add("1")
		}
		add(")")
	case 5: // -(-(-(a)))
		for i := 0; i < n; i++ {
			add("-", "(")
		}
		add("a")
		for i := 0; i < n; i++ {
			add(")")
		}
		if defect {
			add(")")
		}
	case 6: // a IS NULL IS NOT NULL ... / NOT IN chains
		add("a")
		for i := 0; i < n; i++ {
			switch i % 3 {
			case 0:
				add("IS", "NULL")
			case 1:
				add("IS", "NOT", "NULL")
			default:
				add("NOT", "IN", "a")
			}
			if defect && i == n/2 {
				add("NOT")
			}
		}
	}
	return out
}

func init() {
	fw.Register(&fw.Check{
		ID:    "C02",
		Level: "model_checking",
		Rule: "(a) every token sequence of length 1..4 over the full 40-token vocabulary (incl. quoted identifiers that spell a keyword, an operator or a bracket); (b) every sequence up to the length bound over a representative 18-token alphabet (one operator per precedence level, every bracket, comma and keyword); (c) the complete single-edit neighbourhood (insert/delete/replace by any vocabulary token, swap, duplicate) of valid sentences of <=9 tokens generated from C01's trees; (d) seven families of deep nestings and long chains (parentheses, operator chains, nested calls, nested indexes, long argument lists, nested unary minus, postfix chains) at 13 sizes up to 257, each valid and with one defect in the middle; rendered with single blanks and parsed end-to-end with ParseString; " +
			"oracle: an independent recursive-descent recogniser — accept iff sentence, accepted => ResultTokens = post-order of the unique tree, rejected => ApplicationError with a code, never a panic; a trailing comma in an argument list is unspecified; non-trivial = valid sentences",
		Assume: []string{"the recogniser is cross-checked against the sentence generator/printer in C01 (every printed tree must be recognised as its own tree)", "tokenization of single tokens separated by blanks is as C13 establishes"},
		Spaces: func(tier string) []fw.Space {
			full := len(exprVocab)
			skipA, nA := countSeqRange(full, 1, 3)
			if tier == "thorough" {
				skipA, nA = countSeqRange(full, 1, 4)
			}
			small := len(exprVocabSmall)
			maxB := 5
			if tier == "thorough" {
				maxB = 6
			}
			skipB, nB := countSeqRange(small, 1, maxB)
			seqOf := func(vocab []vtok, idx []int) []vtok {
				out := make([]vtok, len(idx))
				for i, k := range idx {
					out[i] = vocab[k]
				}
				return out
			}
			var sentences [][]vtok
			getS := func() [][]vtok {
				if sentences == nil {
					sentences = c02Sentences(tier)
				}
				return sentences
			}
			nS := int64(len(getS()))
			return []fw.Space{
				{Name: "full-vocabulary", N: nA, Run: func(c *fw.Ctx, i int64) { c02Check(c, seqOf(exprVocab, seqByIndex(full, skipA+i)), "") },
					Repr: func(i int64) string { return fmt.Sprintf("tokens %q", vtokText(seqOf(exprVocab, seqByIndex(full, skipA+i)))) }},
				{Name: "representative-alphabet", N: nB, Run: func(c *fw.Ctx, i int64) {
					c02Check(c, seqOf(exprVocabSmall, seqByIndex(small, skipB+i)), "")
				}, Repr: func(i int64) string {
					return fmt.Sprintf("tokens %q", vtokText(seqOf(exprVocabSmall, seqByIndex(small, skipB+i))))
				}},
				{Name: "pumped-sentences", N: int64(7 * 2 * len(pumpCountsSmall)), Timeout: 300e9, Run: func(c *fw.Ctx, i int64) {
					c02Check(c, c02Pumped(int(i)%7, pumpCountsSmall[int(i)/14], int(i)/7%2 == 1), "")
				}, Repr: func(i int64) string {
					return fmt.Sprintf("pumped sentence shape %d, size %d, defect=%v", int(i)%7, pumpCountsSmall[int(i)/14], int(i)/7%2 == 1)
				}},
				{Name: "single-edit-neighbourhood", N: nS, Timeout: 120e9, Run: func(c *fw.Ctx, i int64) {
					s := getS()[i]
					origin := fmt.Sprintf("[edit of %q] ", vtokText(s))
					c02Check(c, s, "")
					for _, e := range c02Edits(s) {
						if len(e) > 0 {
							c02Check(c, e, origin)
						}
					}
				}, Repr: func(i int64) string { return fmt.Sprintf("all single edits of %q", vtokText(getS()[i])) }},
			}
		},
		Bounds: func(tier string) string {
			if tier == "thorough" {
				return "full vocabulary len<=4 (1.7M); representative alphabet len<=6 (36M); all single edits (incl. blocks of <=4 tokens doubled or left out) of ~4000 valid sentences"
			}
			return "full vocabulary len<=3; representative alphabet len<=5 (2M); all single edits (one token inserted, deleted, replaced, swapped; a block of <=4 tokens doubled or left out) of ~400 valid sentences"
		},
	})
}
