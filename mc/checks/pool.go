package checks

import (
	"fmt"
	"math"
	"time"

	"github.com/pip-services3-gox/pip-services3-expressions-gox/variants"
)

// Shared pool of variant values: every supported type with the boundaries the
// code branches on. Every entry builds a FRESH variant (operators must not be
// able to contaminate later cases through a shared operand).

type poolVal struct {
	label string
	mk    func() *variants.Variant
}

type c20Obj struct{ N int }

var poolQuick, poolThorough []poolVal

func init() {
	add := func(quick bool, label string, mk func() *variants.Variant) {
		pv := poolVal{label, mk}
		poolThorough = append(poolThorough, pv)
		if quick {
			poolQuick = append(poolQuick, pv)
		}
	}
	add(true, "Null", func() *variants.Variant { return variants.EmptyVariant() })
	qi := map[int]bool{0: true, 1: true, -1: true, 2: true, 7: true, -8: true, 64: true, math.MaxInt64: true, math.MinInt64: true}
	for _, x := range []int{0, 1, -1, 2, 3, 7, -8, 12, 31, 32, 63, 64, 1 << 24, 1<<24 + 1, 1 << 31, 1<<53 + 1, math.MaxInt64, math.MinInt64} {
		x := x
		add(qi[x], fmt.Sprintf("Integer(%d)", x), func() *variants.Variant { return variants.VariantFromInteger(x) })
	}
	ql := map[int64]bool{0: true, 1: true, -1: true, 7: true, 64: true, 1<<53 + 1: true, math.MaxInt64: true, math.MinInt64: true}
	for _, x := range []int64{0, 1, -1, 2, 7, -8, 63, 64, 1000, 86400, 1 << 31, -(1 << 31), 1<<53 + 1, math.MaxInt64, math.MinInt64} {
		x := x
		add(ql[x], fmt.Sprintf("Long(%d)", x), func() *variants.Variant { return variants.VariantFromLong(x) })
	}
	// integers next to float32 / float64 rounding midpoints (double rounding shows only here)
	for i, x := range []int64{1<<25 + 2 + 1, 1<<25 + 2 - 1, 1<<31 + 1<<7 + 1, 1<<40 + 1<<16 - 1, 1<<54 + 2 + 1, 1<<60 + 1<<36 + 1, 1<<60 + 1<<36 - 1, -(1<<60 + 1<<36 + 1), 1<<62 + 1<<38 + 1, 1<<60 + 1<<7 + 1} {
		x := x
		add(i == 5 || i == 0, fmt.Sprintf("Long(%d)", x), func() *variants.Variant { return variants.VariantFromLong(x) })
	}
	negZero32 := float32(math.Copysign(0, -1))
	for i, x := range []float32{0, negZero32, 1, -1.5, 2.5, 7, 1 << 24, math.MaxFloat32, float32(math.NaN()), float32(math.Inf(1)), float32(math.Inf(-1))} {
		x := x
		add(i < 6 || i >= 7, fmt.Sprintf("Float(%v)", x), func() *variants.Variant { return variants.VariantFromFloat(x) })
	}
	for i, x := range []float64{0, math.Copysign(0, -1), 1, -1.5, 2.5, 3, 0.5, 1e300, 1 << 53, math.MaxFloat64, math.NaN(), math.Inf(1), math.Inf(-1)} {
		x := x
		add(i != 5 && i != 7, fmt.Sprintf("Double(%v)", x), func() *variants.Variant { return variants.VariantFromDouble(x) })
	}
	qs := map[string]bool{"": true, "a": true, "b": true, "12": true, "1.5": true, "true": true, "abc": true, "яé": true}
	for _, x := range []string{"", "a", "b", "12", "-3", "1.5", "true", "false", "abc", "ab", "яé", "\U0001F600", " 7 ", "1e2", "null", "2020-01-01T00:00:00Z"} {
		x := x
		add(qs[x], fmt.Sprintf("String(%q)", x), func() *variants.Variant { return variants.VariantFromString(x) })
	}
	add(true, "Boolean(true)", func() *variants.Variant { return variants.VariantFromBoolean(true) })
	add(true, "Boolean(false)", func() *variants.Variant { return variants.VariantFromBoolean(false) })
	for i, x := range []time.Duration{0, time.Millisecond, -time.Second, time.Hour, 1500 * time.Microsecond, 24 * time.Hour} {
		x := x
		add(i < 4, fmt.Sprintf("TimeSpan(%v)", x), func() *variants.Variant { return variants.VariantFromTimeSpan(x) })
	}
	zoneA := time.FixedZone("A", 3600)
	for i, x := range []time.Time{{}, time.Unix(0, 0).UTC(), time.Date(2020, 2, 29, 13, 14, 15, 123456789, time.UTC), time.Date(2020, 2, 29, 14, 14, 15, 123456789, zoneA), time.Date(1999, 12, 31, 23, 59, 59, 0, time.UTC), time.Unix(86400, 0).UTC(), time.Date(2024, 1, 1, 0, 30, 0, 0, time.FixedZone("E", 5*3600)), time.Date(2024, 1, 7, 23, 30, 0, 0, time.FixedZone("W", -8*3600)),
		// before the epoch with a fraction of a second (flooring and truncating the seconds differ), and one nanosecond before it
		time.Date(1969, 12, 31, 23, 59, 58, 500000000, time.UTC), time.Unix(0, -1).UTC()} {
		x := x
		add(i < 4 || i == 8, "DateTime("+x.Format(time.RFC3339Nano)+")", func() *variants.Variant { return variants.VariantFromDateTime(x) })
	}
	arr := func(xs ...*variants.Variant) *variants.Variant { return variants.VariantFromArray(xs) }
	add(true, "Array[]", func() *variants.Variant { return arr() })
	add(true, "Array[1]", func() *variants.Variant { return arr(variants.VariantFromInteger(1)) })
	add(true, "Array[1,'a',null]", func() *variants.Variant {
		return arr(variants.VariantFromInteger(1), variants.VariantFromString("a"), variants.EmptyVariant())
	})
	add(false, "Array[2.5,true]", func() *variants.Variant { return arr(variants.VariantFromDouble(2.5), variants.VariantFromBoolean(true)) })
	// not-a-number inside a list, also nested: such a list equals nothing, its own clone included
	add(true, "Array[NaN,1]", func() *variants.Variant { return arr(variants.VariantFromDouble(math.NaN()), variants.VariantFromInteger(1)) })
	add(false, "Array[[NaN]]", func() *variants.Variant { return arr(arr(variants.VariantFromFloat(float32(math.NaN())))) })
	add(false, "Array[[1],'b']", func() *variants.Variant { return arr(arr(variants.VariantFromInteger(1)), variants.VariantFromString("b")) })
	// an array that grew through an indexed write past its end (the skipped positions are nulls)
	add(true, "Array[grown:null,null,5]", func() *variants.Variant {
		v := variants.VariantFromArray([]*variants.Variant{})
		v.SetByIndex(2, variants.VariantFromInteger(5))
		return v
	})
	add(true, "Object({7})", func() *variants.Variant { return variants.VariantFromObject(c20Obj{7}) })
	add(false, "Object({8})", func() *variants.Variant { return variants.VariantFromObject(c20Obj{8}) })
}

func valuePool(tier string) []poolVal {
	if tier == "thorough" {
		return poolThorough
	}
	return poolQuick
}
