package checks

import (
	"regexp"
	"sort"
	"strings"
	"unicode/utf8"

	"github.com/pip-services3-gox/pip-services3-expressions-gox/verifsched"
)

// Change-directed refinement of the bounds. The overlay generator (cmd/gen) lists the string,
// character and integer literals that the working tree's non-test sources contain (more often)
// than the pinned tree (baseline_literals.json). On the unchanged tree the lists are empty and
// every space below has zero cases. On a changed tree the checks
//   - add the new characters and short strings as extra letters ("atoms") of their input alphabets,
//     and plausible instances of new patterns (a regular expression literal with \d+, \w+ ... filled in),
//   - add n-1, n, n+1 for every new integer n to the size lists of the pumped families.
// The oracles are the same reference models; this only moves the bounded space towards the
// constants the changed code compares against.

// newAtoms: at most maxAtoms new letters (characters first, then short strings and pattern instances)
func newAtoms(maxAtoms int) []string {
	seen := map[string]bool{}
	out := []string{}
	add := func(s string) {
		if s != "" && !seen[s] && utf8.RuneCountInString(s) <= 40 && len(out) < maxAtoms {
			seen[s] = true
			out = append(out, s)
		}
	}
	for _, r := range verifsched.NewRunes {
		add(string(r))
	}
	strs := append([]string{}, verifsched.NewStrings...)
	sort.Slice(strs, func(i, j int) bool { return len(strs[i]) < len(strs[j]) })
	for _, s := range strs {
		add(s)
		if inst := patternInstance(s); inst != s {
			add(inst)
		}
	}
	return out
}

var reClass = regexp.MustCompile(`\\[dDwWsS][+*?]?|\[[^\]]+\][+*?]?|\(\?[a-z]+\)`)

// patternInstance turns a regular-expression-looking literal into one plain string it matches
// (crudely: \d+ -> 7, \w+ -> x, \s+ -> blank, [..]+ -> its first member, anchors dropped);
// format verbs %d %s %v %q are filled in the same way.
func patternInstance(s string) string {
	t := reClass.ReplaceAllStringFunc(s, func(m string) string {
		switch {
		case strings.HasPrefix(m, `\d`):
			return "7"
		case strings.HasPrefix(m, `\w`):
			return "x"
		case strings.HasPrefix(m, `\s`):
			return " "
		case strings.HasPrefix(m, `(?`):
			return ""
		case strings.HasPrefix(m, "["):
			inner := strings.TrimLeft(m, "[")
			if r, _ := utf8.DecodeRuneInString(inner); r != '^' && r != utf8.RuneError {
				return string(r)
			}
			return "x"
		}
		return "x"
	})
	t = strings.TrimPrefix(t, "^")
	t = strings.TrimSuffix(t, "$")
	for _, v := range []string{"%d", "%v", "%s", "%q"} {
		t = strings.ReplaceAll(t, v, "7")
	}
	t = strings.ReplaceAll(t, `\.`, ".")
	t = strings.ReplaceAll(t, `\\`, `\`)
	return t
}

// newSizes: n-1, n, n+1 for every new integer literal 2 <= n <= 4096
func newSizes() []int {
	seen := map[int]bool{}
	out := []int{}
	for _, v := range verifsched.NewInts {
		if v < 2 || v > 4096 {
			continue
		}
		for _, n := range []int{int(v) - 1, int(v), int(v) + 1} {
			if n >= 2 && !seen[n] {
				seen[n] = true
				out = append(out, n)
			}
		}
	}
	sort.Ints(out)
	if len(out) > 12 {
		out = out[:12]
	}
	return out
}

func init() {
	// CSV fields made of the new letters
	for _, a := range newAtoms(4) {
		ok := true
		for _, r := range a {
			if r > 0xfffe {
				ok = false
			}
		}
		if ok {
			c09Fields = append(c09Fields, a, "x"+a+"y")
		}
	}
	// the size lists of the pumped families grow by the sizes next to new integer constants
	for _, n := range newSizes() {
		has := func(xs []int) bool {
			for _, x := range xs {
				if x == n {
					return true
				}
			}
			return false
		}
		if !has(pumpCounts) {
			pumpCounts = append(pumpCounts, n)
		}
		if !has(pumpCountsSmall) {
			pumpCountsSmall = append(pumpCountsSmall, n)
		}
		if !has(widthCounts) {
			widthCounts = append(widthCounts, n)
		}
		if !has(widthCountsSmall) {
			widthCountsSmall = append(widthCountsSmall, n)
		}
	}
}
