// Package snap hashes (and can dump) the whole object graph reachable from a
// set of roots: unexported fields, maps, slices and interface payloads
// included, pointer identity normalised by first-visit order.
package snap

import (
	"fmt"
	"hash/fnv"
	"reflect"
	"sort"
	"strings"
	"time"
	"unsafe"
)

type walker struct {
	seen  map[unsafe.Pointer]int
	out   *strings.Builder // nil: hash only
	h     uint64
	depth int
	nodes int
}

const (
	prime = 1099511628211
)

func (w *walker) mix(x uint64) { w.h = (w.h ^ x) * prime }
func (w *walker) mixs(s string) {
	for i := 0; i < len(s); i++ {
		w.h = (w.h ^ uint64(s[i])) * prime
	}
	w.mix(uint64(len(s)))
}

func (w *walker) emit(format string, args ...interface{}) {
	if w.out != nil && w.out.Len() < 4<<20 {
		fmt.Fprintf(w.out, format, args...)
	}
}

var timeType = reflect.TypeOf(time.Time{})

// access strips the read-only flag of values reached through unexported fields.
func access(v reflect.Value) reflect.Value {
	if v.CanInterface() {
		return v
	}
	if v.CanAddr() {
		return reflect.NewAt(v.Type(), unsafe.Pointer(v.UnsafeAddr())).Elem()
	}
	return v
}

func (w *walker) walk(v reflect.Value, path string) {
	w.nodes++
	if w.nodes > 5_000_000 {
		return
	}
	if !v.IsValid() {
		w.mix(1)
		w.emit("%s = <invalid>\n", path)
		return
	}
	v = access(v)
	t := v.Type()
	if t == timeType && v.CanInterface() {
		tm := v.Interface().(time.Time)
		_, off := tm.Zone()
		w.mix(uint64(tm.UnixNano()))
		w.mix(uint64(off))
		w.emit("%s = time(%d,%d)\n", path, tm.UnixNano(), off)
		return
	}
	switch v.Kind() {
	case reflect.Bool:
		if v.Bool() {
			w.mix(3)
		} else {
			w.mix(5)
		}
		w.emit("%s = %v\n", path, v.Bool())
	case reflect.Int, reflect.Int8, reflect.Int16, reflect.Int32, reflect.Int64:
		w.mix(uint64(v.Int()))
		w.emit("%s = %d\n", path, v.Int())
	case reflect.Uint, reflect.Uint8, reflect.Uint16, reflect.Uint32, reflect.Uint64, reflect.Uintptr:
		w.mix(v.Uint())
		w.emit("%s = %d\n", path, v.Uint())
	case reflect.Float32, reflect.Float64:
		w.mixs(fmt.Sprint(v.Float()))
		w.emit("%s = %v\n", path, v.Float())
	case reflect.Complex64, reflect.Complex128:
		w.mixs(fmt.Sprint(v.Complex()))
	case reflect.String:
		w.mixs(v.String())
		w.emit("%s = %q\n", path, v.String())
	case reflect.Ptr:
		if v.IsNil() {
			w.mix(7)
			w.emit("%s = nil\n", path)
			return
		}
		p := unsafe.Pointer(v.Pointer())
		if id, ok := w.seen[p]; ok {
			w.mix(uint64(1000 + id))
			w.emit("%s = ->#%d\n", path, id)
			return
		}
		id := len(w.seen)
		w.seen[p] = id
		w.mix(uint64(2000 + id))
		w.emit("%s = &#%d\n", path, id)
		w.walk(v.Elem(), path+".*")
	case reflect.Interface:
		if v.IsNil() {
			w.mix(11)
			w.emit("%s = nil-interface\n", path)
			return
		}
		e := v.Elem()
		w.mixs(e.Type().String())
		if e.Kind() != reflect.Ptr && e.Kind() != reflect.Map && e.Kind() != reflect.Slice && e.Kind() != reflect.Func && e.Kind() != reflect.Chan {
			// payload copy: make it addressable so unexported fields can be read
			tmp := reflect.New(e.Type()).Elem()
			if e.CanInterface() {
				tmp.Set(e)
				e = tmp
			}
		}
		w.walk(e, path+".("+e.Type().String()+")")
	case reflect.Struct:
		w.mixs(t.String())
		for i := 0; i < v.NumField(); i++ {
			w.walk(v.Field(i), path+"."+t.Field(i).Name)
		}
	case reflect.Slice:
		if v.IsNil() {
			w.mix(13)
			w.emit("%s = nil-slice\n", path)
			return
		}
		w.mix(uint64(v.Len()))
		w.emit("%s = slice len %d\n", path, v.Len())
		for i := 0; i < v.Len(); i++ {
			w.walk(v.Index(i), fmt.Sprintf("%s[%d]", path, i))
		}
	case reflect.Array:
		for i := 0; i < v.Len(); i++ {
			w.walk(v.Index(i), fmt.Sprintf("%s[%d]", path, i))
		}
	case reflect.Map:
		if v.IsNil() {
			w.mix(17)
			return
		}
		// order-independent: hash each (key,value) with a sub-walker sharing 'seen', combine sorted
		type kv struct {
			h   uint64
			txt string
		}
		items := []kv{}
		it := v.MapRange()
		for it.Next() {
			sub := &walker{seen: w.seen, h: 14695981039346656037}
			var sb strings.Builder
			if w.out != nil {
				sub.out = &sb
			}
			k := reflect.New(t.Key()).Elem()
			k.Set(access(it.Key()))
			val := reflect.New(t.Elem()).Elem()
			val.Set(access(it.Value()))
			sub.walk(k, path+"{key}")
			sub.walk(val, path+"{val}")
			items = append(items, kv{sub.h, sb.String()})
			w.nodes += sub.nodes
		}
		sort.Slice(items, func(i, j int) bool { return items[i].h < items[j].h })
		w.mix(uint64(len(items)))
		for _, it := range items {
			w.mix(it.h)
			if w.out != nil {
				w.out.WriteString(it.txt)
			}
		}
	case reflect.Func, reflect.Chan, reflect.UnsafePointer:
		if v.IsNil() {
			w.mix(19)
		} else {
			w.mix(uint64(v.Pointer()))
		}
		w.emit("%s = %s@%x\n", path, v.Kind(), v.Pointer())
	default:
		w.mix(23)
	}
}

// Hash returns a hash of the object graphs reachable from the roots (pass pointers).
func Hash(roots ...interface{}) uint64 {
	w := &walker{seen: map[unsafe.Pointer]int{}, h: 14695981039346656037}
	for i, r := range roots {
		w.walk(reflect.ValueOf(r), fmt.Sprintf("root%d", i))
	}
	return w.h
}

// Dump returns a textual form of the same walk (for diffing two snapshots).
func Dump(roots ...interface{}) string {
	var sb strings.Builder
	w := &walker{seen: map[unsafe.Pointer]int{}, h: 14695981039346656037, out: &sb}
	for i, r := range roots {
		w.walk(reflect.ValueOf(r), fmt.Sprintf("root%d", i))
	}
	return sb.String()
}

// FirstDiff names the first line that differs between two dumps.
func FirstDiff(a, b string) string {
	la, lb := strings.Split(a, "\n"), strings.Split(b, "\n")
	for i := 0; i < len(la) && i < len(lb); i++ {
		if la[i] != lb[i] {
			return fmt.Sprintf("%q became %q", la[i], lb[i])
		}
	}
	if len(la) != len(lb) {
		return fmt.Sprintf("dump length changed from %d to %d lines", len(la), len(lb))
	}
	return ""
}

var _ = fnv.New64a
