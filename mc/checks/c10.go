package checks

import (
	"fmt"
	"strings"

	"verifmc/fw"

	cerr "github.com/pip-services3-gox/pip-services3-commons-gox/errors"
	"github.com/pip-services3-gox/pip-services3-expressions-gox/mustache"
)

// C10 — Mustache rendering equals the reference semantics; malformed input is rejected.

type mnode struct {
	kind     string // text | var | esc | comment | sec | inv
	text     string
	name     string
	body     []*mnode
	spelling int
}

// ---- reference renderer

func mLookup(vars map[string]string, name string) (string, bool) {
	for k, v := range vars {
		if strings.EqualFold(k, name) {
			return v, true
		}
	}
	return "", false
}

func mEscape(s string) string {
	r := strings.NewReplacer("\\", "\\\\", "\"", "\\\"", "/", "\\/", "\b", "\\b", "\f", "\\f", "\n", "\\n", "\r", "\\r", "\t", "\\t")
	return r.Replace(s)
}

func mRender(nodes []*mnode, vars map[string]string, sb *strings.Builder) {
	for _, n := range nodes {
		switch n.kind {
		case "text":
			sb.WriteString(n.text)
		case "var":
			if v, ok := mLookup(vars, n.name); ok {
				sb.WriteString(v)
			}
		case "esc":
			if v, ok := mLookup(vars, n.name); ok {
				sb.WriteString(mEscape(v))
			}
		case "sec", "inv":
			v, ok := mLookup(vars, n.name)
			defined := ok && v != ""
			if defined == (n.kind == "sec") {
				mRender(n.body, vars, sb)
			}
		}
	}
}

// ---- printer with spellings

// spelling bits: 0 open form (#n | #if n ; ^n | #unless n), 1-2 close form (name, /if, /unless), 3 triple braces, 4 inner spaces
const mSpellings = 24

func mPrint(nodes []*mnode, sb *strings.Builder) {
	for _, n := range nodes {
		sp := n.spelling % mSpellings
		openForm := sp % 2
		closeForm := (sp / 2) % 3
		triple := (sp/6)%2 == 1
		spaces := (sp/12)%2 == 1
		ob, cb := "{{", "}}"
		if triple {
			ob, cb = "{{{", "}}}"
		}
		pad := ""
		if spaces {
			pad = " "
		}
		switch n.kind {
		case "text":
			sb.WriteString(n.text)
		case "var":
			sb.WriteString("{{" + pad + n.name + pad + "}}")
		case "esc":
			sb.WriteString("{{{" + pad + n.name + pad + "}}}")
		case "comment":
			sb.WriteString(ob + "!" + n.text + cb)
		case "sec", "inv":
			var open string
			switch {
			case n.kind == "sec" && openForm == 0:
				open = "#" + pad + n.name
			case n.kind == "sec":
				open = "#if " + n.name
			case openForm == 0:
				open = "^" + pad + n.name
			default:
				open = "#unless " + n.name
			}
			sb.WriteString(ob + pad + open + pad + cb)
			mPrint(n.body, sb)
			cl := []string{n.name, "if", "unless"}[closeForm]
			sb.WriteString(ob + pad + "/" + pad + cl + pad + cb)
		}
	}
}

// printable: constraints that keep the lexing unambiguous
func mPrintable(nodes []*mnode, atStart, atEnd bool) bool {
	for i, n := range nodes {
		if n.kind == "text" {
			prevIsTag := i > 0
			nextIsTag := i < len(nodes)-1
			if strings.HasPrefix(n.text, "}") && (prevIsTag || !atStart) {
				return false
			}
			if strings.HasSuffix(n.text, "{") && (nextIsTag || !atEnd) {
				return false
			}
			if i > 0 && nodes[i-1].kind == "text" {
				return false // adjacent text nodes are one text node
			}
			if atStart && i == 0 && strings.TrimLeft(n.text, " \t\r\n") != n.text {
				return false
			}
			if atEnd && i == len(nodes)-1 && strings.TrimRight(n.text, " \t\r\n") != n.text {
				return false
			}
		}
		if n.kind == "sec" || n.kind == "inv" {
			if !mPrintable(n.body, false, false) {
				return false
			}
		}
	}
	return true
}

var mLeaves = []mnode{
	{kind: "text", text: "x"}, {kind: "text", text: ", "}, {kind: "text", text: "}"}, {kind: "text", text: "я"}, {kind: "text", text: "a b"},
	{kind: "var", name: "a"}, {kind: "var", name: "B"}, {kind: "esc", name: "a"}, {kind: "esc", name: "B"},
	{kind: "comment", text: " c "}, {kind: "comment", text: "a #b"},
}

var mBodyLeaves = []mnode{
	{kind: "text", text: "x"}, {kind: "text", text: "я "}, {kind: "var", name: "a"}, {kind: "esc", name: "B"}, {kind: "comment", text: "c"}, {kind: "text", text: "}"},
}

func mSeq(alts []func(sp int) *mnode, idx []int, spBase int) []*mnode {
	out := []*mnode{}
	for k, i := range idx {
		out = append(out, alts[i](spBase+7*k))
	}
	return out
}

// alternatives of depth 2: leaves + sections with bodies of <=2 body-leaves
func mAlternatives(depth int) []func(sp int) *mnode {
	alts := []func(sp int) *mnode{}
	for i := range mLeaves {
		l := mLeaves[i]
		alts = append(alts, func(sp int) *mnode { c := l; c.spelling = sp; return &c })
	}
	bodyAlts := []func(sp int) *mnode{}
	for i := range mBodyLeaves {
		l := mBodyLeaves[i]
		bodyAlts = append(bodyAlts, func(sp int) *mnode { c := l; c.spelling = sp; return &c })
	}
	if depth >= 3 {
		// inner sections with bodies of <=1 leaf
		for _, kind := range []string{"sec", "inv"} {
			for _, name := range []string{"a", "B"} {
				for bi := int64(0); bi < countStrings(len(mBodyLeaves), 1); bi++ {
					kind, name, bi := kind, name, bi
					bodyAlts = append(bodyAlts, func(sp int) *mnode {
						inner := []func(sp int) *mnode{}
						for i := range mBodyLeaves {
							l := mBodyLeaves[i]
							inner = append(inner, func(sp int) *mnode { c := l; c.spelling = sp; return &c })
						}
						return &mnode{kind: kind, name: name, spelling: sp, body: mSeq(inner, seqByIndex(len(mBodyLeaves), bi), sp+1)}
					})
				}
			}
		}
	}
	nb := countStrings(len(bodyAlts), 2)
	for _, kind := range []string{"sec", "inv"} {
		for _, name := range []string{"a", "B"} {
			for bi := int64(0); bi < nb; bi++ {
				kind, name, bi := kind, name, bi
				alts = append(alts, func(sp int) *mnode {
					return &mnode{kind: kind, name: name, spelling: sp, body: mSeq(bodyAlts, seqByIndex(len(bodyAlts), bi), sp+3)}
				})
			}
		}
	}
	return alts
}

var mValues = []string{"\x00absent", "", "v", "\"/\\\n\t"}

func mMaps() []map[string]string {
	out := []map[string]string{}
	for ai, av := range mValues {
		for bi, bv := range mValues {
			m := map[string]string{}
			ka, kb := "a", "b"
			if (ai+bi)%2 == 1 {
				ka, kb = "A", "B"
			}
			if av != "\x00absent" {
				m[ka] = av
			}
			if bv != "\x00absent" {
				m[kb] = bv
			}
			out = append(out, m)
		}
	}
	return out
}

func c10Semantics(c *fw.Ctx, nodes []*mnode) {
	if !mPrintable(nodes, true, true) {
		c.Outcome("not-printable-unambiguously")
		return
	}
	var sb strings.Builder
	mPrint(nodes, &sb)
	text := sb.String()
	if text == "" {
		return
	}
	t := mustache.NewMustacheTemplate()
	var err error
	pv := fw.Try(func() { err = t.SetTemplate(text) })
	c.Eval(1)
	if pv != nil || err != nil {
		sig := "well-formed-template-rejected"
		if strings.Contains(text, "!") {
			sig = "well-formed-template-with-comment-rejected"
		}
		c.Violation(sig, "SetTemplate(%q) fails: %s (panic %v)", text, errStr(err), pv)
		return
	}
	hasSection := false
	for _, n := range nodes {
		if n.kind == "sec" || n.kind == "inv" {
			hasSection = true
		}
	}
	if hasSection {
		c.Nontrivial()
	}
	// the object's default variables get non-empty values: they must only matter for Evaluate()
	for k := range t.DefaultVariables() {
		t.DefaultVariables()[k] = "<default " + k + ">"
	}
	for _, m := range mMaps() {
		var want strings.Builder
		mRender(nodes, m, &want)
		var got string
		var eerr error
		pv := fw.Try(func() { got, eerr = t.EvaluateWithVariables(m) })
		c.Eval(1)
		if pv != nil || eerr != nil {
			c.Violation("render-fails", "template %q with %v: error %v panic %v", text, m, eerr, pv)
			return
		}
		if got != want.String() {
			c.Violation(c10RenderSig(nodes), "template %q with %q renders %q, reference semantics give %q", text, fmt.Sprint(m), got, want.String())
			return
		}
	}
	// Evaluate() with default variables agrees with the reference on the default map
	{
		defaults := map[string]string{}
		for k, v := range t.DefaultVariables() {
			defaults[k] = v
		}
		var want strings.Builder
		mRender(nodes, defaults, &want)
		got, eerr := t.Evaluate()
		if eerr != nil || got != want.String() {
			c.Violation("render-with-defaults", "template %q: Evaluate() = %q (%v), reference on the default variables gives %q", text, got, eerr, want.String())
		}
	}
	// a map the caller owns goes through the life cycle of ANOTHER template object (handed in as its
	// defaults, template set, rendered, object cleared) and is then used for rendering here: the result
	// is what the map held when the caller built it (entries the library adds for missing names are
	// empty, and an empty value renders like an absent one)
	for _, m := range mMaps() {
		if len(m) == 0 {
			continue
		}
		shared := map[string]string{}
		for k, v := range m {
			shared[k] = v
		}
		var want strings.Builder
		mRender(nodes, m, &want)
		var got string
		var eerr error
		pv := fw.Try(func() {
			other := mustache.NewMustacheTemplate()
			other.SetDefaultVariables(shared)
			other.SetTemplate(text)
			other.Evaluate()
			other.Clear()
			other.SetTemplate("{{zz}}")
			other.Clear()
			got, eerr = t.EvaluateWithVariables(shared)
		})
		c.Eval(1)
		if pv != nil || eerr != nil || got != want.String() {
			c.Violation("callers-map-changed-by-another-template", "template %q with the map %q after that map was the default map of another template object (SetDefaultVariables, SetTemplate, Evaluate, Clear): renders %q (error %v, panic %v), reference semantics give %q; the map now holds %q", text, fmt.Sprint(m), got, eerr, pv, want.String(), fmt.Sprint(shared))
			return
		}
	}
	c.Outcome("rendered")
}

func c10RenderSig(nodes []*mnode) string {
	kinds := map[string]bool{}
	var walk func(ns []*mnode)
	walk = func(ns []*mnode) {
		for _, n := range ns {
			kinds[n.kind] = true
			walk(n.body)
		}
	}
	walk(nodes)
	switch {
	case kinds["inv"] && !kinds["sec"]:
		return "render-differs:inverted-section"
	case kinds["sec"]:
		return "render-differs:section"
	case kinds["esc"]:
		return "render-differs:escaped-variable"
	case kinds["var"]:
		return "render-differs:variable"
	}
	return "render-differs:text"
}

// ---- escaping: every value over the escapable characters

var mEscAlphabet = []rune("\\\"/\b\f\n\r\taя")
var mEscTemplates = []string{"{{{a}}}", "{{a}}", "{{#B}}<{{{ a }}}>{{/B}}", "x{{{A}}}y{{a}}"}

func c10Escaping(c *fw.Ctx, ti int, value string) {
	text := mEscTemplates[ti]
	t := mustache.NewMustacheTemplate()
	if err := t.SetTemplate(text); err != nil {
		c.Violation("well-formed-template-rejected", "SetTemplate(%q) fails: %v", text, err)
		return
	}
	m := map[string]string{"a": value, "b": "1"}
	var want string
	switch ti {
	case 0:
		want = mEscape(value)
	case 1:
		want = value
	case 2:
		want = "<" + mEscape(value) + ">"
	case 3:
		want = "x" + mEscape(value) + "y" + value
	}
	var got string
	var err error
	pv := fw.Try(func() { got, err = t.EvaluateWithVariables(m) })
	c.Eval(1)
	c.Nontrivial()
	if pv != nil || err != nil || got != want {
		c.Violation("render-differs:escaped-variable", "template %q with a=%q renders %q (err %v, panic %v), reference %q", text, value, got, err, pv, want)
	}
}

// ---- literal text with boundary characters at every position (only blank, tab, CR, LF are trimmed at the ends)

func c10TextSweep(c *fw.Ctx, ch rune, shape int, k int) {
	cs := strings.Repeat(string(ch), k)
	if ch == '{' || ch == '}' {
		return // brace characters next to tags are governed by the printer constraints of the AST sweep
	}
	var text string
	switch shape {
	case 0:
		text = cs + "x{{a}}y"
	case 1:
		text = "x{{a}}y" + cs
	case 2:
		text = "x" + cs + "{{a}}" + cs + "y"
	case 3:
		text = cs + "{{#a}}" + cs + "{{/a}}" + cs
	case 4:
		text = "{{a}}" + cs + "{{{a}}}"
	}
	trimmed := strings.Trim(text, " \t\r\n")
	if trimmed == "" {
		return
	}
	want := strings.NewReplacer("{{#a}}", "", "{{/a}}", "", "{{{a}}}", "V", "{{a}}", "V").Replace(trimmed)
	t := mustache.NewMustacheTemplate()
	var got string
	var err error
	pv := fw.Try(func() {
		if err = t.SetTemplate(text); err == nil {
			got, err = t.EvaluateWithVariables(map[string]string{"a": "V"})
		}
	})
	c.Eval(1)
	c.Nontrivial()
	// (blanks, tabs, CR and LF around the whole template: dropped, as the pinned code does, or kept - "text verbatim")
	wantKept := strings.NewReplacer("{{#a}}", "", "{{/a}}", "", "{{{a}}}", "V", "{{a}}", "V").Replace(text)
	if pv != nil || err != nil || (got != want && got != wantKept) {
		c.Violation("render-differs:literal-text", "template %q with a=V renders %q (err %v, panic %v); text must be kept verbatim (only blank, tab, CR, LF are trimmed at the ends): %q", text, got, err, pv, want)
	}
}

// ---- accept / reject over lexeme sequences

var mLexemes = []string{"{{", "}}", "{{{", "}}}", "#", "/", "^", "!", "if", "unless", "a", "b", "x"}

// mClassify: "well-formed" (with AST), "malformed", "unspecified".
func mClassify(lex []string) (string, []*mnode, string) {
	text := strings.Join(lex, " ")
	type tag struct {
		kind string // var esc comment open-sec open-inv end
		name string
	}
	type item struct {
		isTag bool
		text  string
		t     tag
	}
	items := []item{}
	unspecified := false
	i := 0
	cur := []string{} // text lexemes
	flushText := func(joinLeft, joinRight bool) {
		if len(cur) == 0 {
			if joinLeft && joinRight {
				items = append(items, item{text: " "})
			}
			return
		}
		s := strings.Join(cur, " ")
		if joinLeft {
			s = " " + s
		}
		if joinRight {
			s = s + " "
		}
		items = append(items, item{text: s})
		cur = nil
	}
	first := true
	for i < len(lex) {
		l := lex[i]
		if l != "{{" && l != "{{{" {
			cur = append(cur, l)
			i++
			continue
		}
		flushText(!first, true)
		first = false
		// tag
		j := i + 1
		inner := []string{}
		closed := ""
		for j < len(lex) {
			if lex[j] == "}}" || lex[j] == "}}}" {
				closed = lex[j]
				break
			}
			if lex[j] == "{{" || lex[j] == "{{{" {
				if len(inner) > 0 && inner[0] == "!" {
					return "unspecified", nil, "" // braces inside a comment
				}
				return "malformed", nil, "unclosed tag"
			}
			inner = append(inner, lex[j])
			j++
		}
		if closed == "" {
			return "malformed", nil, "unclosed tag"
		}
		if (l == "{{") != (closed == "}}") {
			if len(inner) > 0 && inner[0] == "!" {
				// brace mismatch on a comment is still a mismatch
			}
			return "malformed", nil, "mismatched brace counts"
		}
		isName := func(s string) bool { return s == "a" || s == "b" || s == "x" || s == "y" }
		var t tag
		switch {
		case len(inner) >= 1 && inner[0] == "!":
			t = tag{kind: "comment"}
		case len(inner) == 1 && isName(inner[0]):
			t = tag{kind: "var", name: inner[0]}
			if l == "{{{" {
				t.kind = "esc"
			}
		case len(inner) == 2 && inner[0] == "#" && isName(inner[1]):
			t = tag{"open-sec", inner[1]}
		case len(inner) == 3 && inner[0] == "#" && inner[1] == "if" && isName(inner[2]):
			t = tag{"open-sec", inner[2]}
		case len(inner) == 3 && inner[0] == "#" && inner[1] == "unless" && isName(inner[2]):
			t = tag{"open-inv", inner[2]}
		case len(inner) == 2 && inner[0] == "^" && isName(inner[1]):
			t = tag{"open-inv", inner[1]}
		case len(inner) == 2 && inner[0] == "/" && isName(inner[1]):
			t = tag{"end", inner[1]}
		case len(inner) == 2 && inner[0] == "/" && (inner[1] == "if" || inner[1] == "unless"):
			t = tag{"end", ""}
		default:
			unspecified = true
			t = tag{kind: "comment"}
		}
		items = append(items, item{isTag: true, t: t})
		i = j + 1
		// text after the tag begins with the joining blank
		if i < len(lex) {
			// handled by flushText(joinLeft=true) at the next flush
		}
	}
	flushText(!first, false)
	_ = text
	// section structure
	type frame struct {
		node *mnode
		body *[]*mnode
	}
	root := []*mnode{}
	stack := []frame{{nil, &root}}
	for _, it := range items {
		top := stack[len(stack)-1]
		if !it.isTag {
			*top.body = append(*top.body, &mnode{kind: "text", text: it.text})
			continue
		}
		switch it.t.kind {
		case "var", "esc":
			*top.body = append(*top.body, &mnode{kind: it.t.kind, name: it.t.name})
		case "comment":
			*top.body = append(*top.body, &mnode{kind: "comment"})
		case "open-sec", "open-inv":
			n := &mnode{kind: map[string]string{"open-sec": "sec", "open-inv": "inv"}[it.t.kind], name: it.t.name}
			*top.body = append(*top.body, n)
			stack = append(stack, frame{n, &n.body})
		case "end":
			if len(stack) == 1 {
				if unspecified {
					return "unspecified", nil, ""
				}
				return "malformed", nil, "unopened section"
			}
			if it.t.name != "" && it.t.name != top.node.name {
				if unspecified {
					return "unspecified", nil, ""
				}
				return "malformed", nil, "mismatched section"
			}
			stack = stack[:len(stack)-1]
		}
	}
	if unspecified {
		return "unspecified", nil, ""
	}
	if len(stack) > 1 {
		return "malformed", nil, "unclosed section"
	}
	return "well-formed", root, ""
}

// mLexemesOf converts an AST into the lexeme vocabulary of the accept/reject check.
func mLexemesOf(nodes []*mnode, out *[]string) {
	for _, n := range nodes {
		sp := n.spelling % mSpellings
		ob, cb := "{{", "}}"
		if (sp/6)%2 == 1 {
			ob, cb = "{{{", "}}}"
		}
		name := strings.ToLower(n.name)
		switch n.kind {
		case "text":
			*out = append(*out, "x")
		case "var":
			*out = append(*out, "{{", name, "}}")
		case "esc":
			*out = append(*out, "{{{", name, "}}}")
		case "comment":
			*out = append(*out, ob, "!", "y", cb)
		case "sec", "inv":
			*out = append(*out, ob)
			switch {
			case n.kind == "sec" && sp%2 == 0:
				*out = append(*out, "#", name)
			case n.kind == "sec":
				*out = append(*out, "#", "if", name)
			case sp%2 == 0:
				*out = append(*out, "^", name)
			default:
				*out = append(*out, "#", "unless", name)
			}
			*out = append(*out, cb)
			mLexemesOf(n.body, out)
			*out = append(*out, ob, "/", []string{name, "if", "unless"}[(sp/2)%3], cb)
		}
	}
}

func c10Edits(c *fw.Ctx, base []string) {
	c10AcceptReject(c, base)
	cp := func(x []string) []string { return append([]string{}, x...) }
	for i := 0; i <= len(base); i++ {
		for _, v := range mLexemes {
			c10AcceptReject(c, append(append(cp(base[:i]), v), base[i:]...))
		}
	}
	for i := range base {
		if len(base) > 1 {
			c10AcceptReject(c, append(cp(base[:i]), base[i+1:]...))
		}
		for _, v := range mLexemes {
			if v != base[i] {
				e := cp(base)
				e[i] = v
				c10AcceptReject(c, e)
			}
		}
		c10AcceptReject(c, append(append(cp(base[:i+1]), base[i]), base[i+1:]...))
		if i+1 < len(base) {
			e := cp(base)
			e[i], e[i+1] = e[i+1], e[i]
			c10AcceptReject(c, e)
		}
	}
}

func c10AcceptReject(c *fw.Ctx, lex []string) {
	text := strings.Join(lex, " ")
	verdict, ast, reason := mClassify(lex)
	t := mustache.NewMustacheTemplate()
	var err error
	pv := fw.Try(func() { err = t.SetTemplate(text) })
	c.Eval(1)
	c.Outcome(verdict + "/" + map[bool]string{true: "accepted", false: "rejected"}[err == nil && pv == nil])
	if pv != nil {
		sig := "template-parser-panics"
		if verdict == "malformed" {
			sig = "template-parser-panics:" + reason
		}
		c.Violation(sig, "SetTemplate(%q) panics: %s (reference: %s %s)", text, panicShort(pv), verdict, reason)
		return
	}
	switch verdict {
	case "malformed":
		c.Nontrivial()
		if err == nil {
			c.Violation("malformed-template-accepted:"+reason, "SetTemplate(%q) succeeds although the template has an %s", text, reason)
			return
		}
		if ae, ok := err.(*cerr.ApplicationError); !ok || ae.Code == "" {
			c.Violation("template-rejection-without-code", "SetTemplate(%q): error %v carries no code", text, err)
		}
		// the same malformed text submitted again to the same instance must be rejected again
		var err2 error
		if pv := fw.Try(func() { err2 = t.SetTemplate(text) }); pv != nil || err2 == nil {
			c.Violation("malformed-template-accepted-on-resubmission", "SetTemplate(%q) is rejected (%s) but the same instance accepts the same text when it is submitted again (panic %v)", text, errStr(err), pv)
		}
	case "well-formed":
		c.Nontrivial()
		if err != nil {
			sig := "well-formed-template-rejected"
			if strings.Contains(text, "!") {
				sig = "well-formed-template-with-comment-rejected"
			}
			c.Violation(sig, "SetTemplate(%q) fails with %s", text, errStr(err))
			return
		}
		for _, m := range []map[string]string{{}, {"a": "1", "B": "", "x": "/"}, {"A": "", "b": "2"}} {
			var want strings.Builder
			mRender(ast, m, &want)
			var got string
			var eerr error
			if pv := fw.Try(func() { got, eerr = t.EvaluateWithVariables(m) }); pv != nil || eerr != nil || got != want.String() {
				c.Violation("render-differs:lexeme-template", "template %q with %v renders %q (err %v, panic %v), reference %q", text, m, got, eerr, pv, want.String())
				return
			}
			c.Eval(1)
		}
	}
}

func init() {
	fw.Register(&fw.Check{
		ID:    "C10",
		Level: "model_checking",
		Rule: "(semantics) every template AST that is a sequence of <=2 (thorough 3) nodes over 11 leaves (texts incl. '}', non-ASCII, blanks; variables and escaped variables a/B; comments) and sections/inverted sections of a/B with bodies of <=2 nodes (thorough: bodies may contain inner sections), printed with rotating spellings (#n/#if n, ^n/#unless n, closed by name, /if or /unless, double/triple braces, inner blanks) plus a dedicated sweep of all 24 spellings, rendered under 16 variable maps (absent/empty/plain/escapable values, keys in either letter case) against a reference renderer; literal text made of each of 183 boundary characters (aliases modulo 2^8 and 2^16 and up to four characters of every Unicode general category among them) at the start, end and middle of a template and inside a section; every value of length<=3 (thorough 5) over the 8 escapable characters plus an ASCII and a non-ASCII letter in plain and escaped variables; " +
			"(accept/reject) every sequence up to the length bound over 13 template lexemes joined by blanks, classified by a three-valued reference recogniser as well-formed (must be accepted and render per reference), malformed for a listed reason (must be rejected with an error code) or unspecified; the same oracle on the complete single-lexeme edit neighbourhood (insert/delete/replace by any lexeme, swap, duplicate) of well-formed templates with sections nested to depth 3; non-trivial = templates with sections / classified sequences",
		Assume: []string{"printer constraints keep lexing unambiguous (no '{{' in text, text before a tag does not end in '{', text after a tag does not start with '}', no blanks at the template's ends)", "degenerate tags ({{#if}}, {{a b}}, {{}}, ...) are unspecified"},
		Spaces: func(tier string) []fw.Space {
			alts := mAlternatives(2)
			topLen := 2
			lexLen := 5
			escLen := 3
			editStep := int64(16)
			if tier == "thorough" {
				editStep = 1
				topLen = 3
				lexLen = 6
				escLen = 5
			}
			nested := mAlternatives(3)
			nl := len(mLexemes)
			skipL, nL := countSeqRange(nl, 1, lexLen)
			// spelling sweep: kind x name x spelling x small bodies
			bodies := [][]*mnode{{}, {{kind: "text", text: "x"}}, {{kind: "var", name: "a"}}, {{kind: "text", text: "y "}, {kind: "esc", name: "B"}}}
			return []fw.Space{
				{Name: "spellings", N: int64(2 * 2 * mSpellings * len(bodies)), Run: func(c *fw.Ctx, i int64) {
					b := bodies[int(i)%len(bodies)]
					sp := int(i) / len(bodies) % mSpellings
					name := []string{"a", "B"}[int(i)/len(bodies)/mSpellings%2]
					kind := []string{"sec", "inv"}[int(i)/len(bodies)/mSpellings/2]
					c10Semantics(c, []*mnode{{kind: "text", text: "<"}, {kind: kind, name: name, spelling: sp, body: b}, {kind: "text", text: ">"}})
				}, Repr: func(i int64) string { return fmt.Sprintf("spelling sweep #%d", i) }},
				{Name: "escaping", N: 4 * countStrings(len(mEscAlphabet), escLen), Run: func(c *fw.Ctx, i int64) {
					c10Escaping(c, int(i%4), stringByIndex(mEscAlphabet, i/4))
				}, Repr: func(i int64) string {
					return fmt.Sprintf("template %q with a=%q", mEscTemplates[i%4], stringByIndex(mEscAlphabet, i/4))
				}},
				{Name: "text-charsweep", N: int64(len(boundaryChars) * 5 * 3), Run: func(c *fw.Ctx, i int64) {
					c10TextSweep(c, boundaryChars[int(i)/15], int(i)%15/3, []int{1, 2, 65}[int(i)%3])
				}, Repr: func(i int64) string {
					return fmt.Sprintf("literal text made of %d x %q in shape %d", []int{1, 2, 65}[int(i)%3], string(boundaryChars[int(i)/15]), int(i)%15/3)
				}},
				{Name: "ast-sequences", N: countStrings(len(alts), topLen), Run: func(c *fw.Ctx, i int64) {
					c10Semantics(c, mSeq(alts, seqByIndex(len(alts), i), int(i%1000)))
				}, Repr: func(i int64) string {
					var sb strings.Builder
					mPrint(mSeq(alts, seqByIndex(len(alts), i), int(i%1000)), &sb)
					return fmt.Sprintf("template %q", sb.String())
				}},
				{Name: "nested-sections", N: int64(len(nested)), Run: func(c *fw.Ctx, i int64) {
					c10Semantics(c, []*mnode{nested[i](int(i))})
					c10Semantics(c, []*mnode{{kind: "text", text: "я"}, nested[i](int(i) + 5), {kind: "var", name: "a"}})
				}, Repr: func(i int64) string {
					var sb strings.Builder
					mPrint([]*mnode{nested[i](int(i))}, &sb)
					return fmt.Sprintf("template %q", sb.String())
				}},
				{Name: "lexeme-edit-neighbourhood", N: int64(len(nested)) / editStep, Timeout: 300e9, Run: func(c *fw.Ctx, i int64) {
					lex := []string{}
					mLexemesOf([]*mnode{nested[i*editStep](int(i))}, &lex)
					c10Edits(c, lex)
				}, Repr: func(i int64) string {
					lex := []string{}
					mLexemesOf([]*mnode{nested[i*editStep](int(i))}, &lex)
					return fmt.Sprintf("all single-lexeme edits of template %q", strings.Join(lex, " "))
				}},
				{Name: "lexeme-sequences", N: nL, Run: func(c *fw.Ctx, i int64) { c10AcceptReject(c, lexemesByIndex(mLexemes, skipL+i)) },
					Repr: func(i int64) string { return fmt.Sprintf("template %q", strings.Join(lexemesByIndex(mLexemes, skipL+i), " ")) }},
			}
		},
		Bounds: func(tier string) string {
			if tier == "thorough" {
				return "AST sequences of <=3 nodes over 183 alternatives (depth 2) + nested sections depth 3; lexeme sequences len<=6 over 13 lexemes; 16 variable maps"
			}
			return "AST sequences of <=2 nodes over 183 alternatives (depth 2) + nested sections depth 3; lexeme sequences len<=5; 16 variable maps"
		},
	})
}
