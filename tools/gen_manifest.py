#!/usr/bin/env python3
"""Generates /verif/MANIFEST.json from the table below (keeps it schema-valid)."""
import json, os
V = os.path.dirname(os.path.dirname(os.path.abspath(__file__)))
CHECKS = {
 # id: (category, level text, level note, technique, design_ref)
 "C04": ("model_checking",
   "Bounded exhaustive input enumeration on the real tokenizers: every string up to length 4-5 (quick) / 6-8 (thorough, 170M inputs) over per-tokenizer alphabets with one representative of every character class that selects a different state or look-ahead branch, options off; oracle: values concatenate to the input, tokens non-empty, single trailing Eof. Exhaustive in the bound; push-back and end-of-input defects are short-input phenomena.",
   "One representative per character class; termination by a deterministic scanner step budget; inputs longer than 4 share one tokenizer per worker and are re-run on a fresh instance before being reported.",
   "bounded exhaustive input enumeration vs losslessness oracle", "§3 C04"),
 "C05": ("model_checking",
   "Explicit operation histories on one real instance of each of 12 object kinds: all ordered pairs (quick) / triples (thorough) of pool inputs, all aborted iterations followed by every input, all {0,1,2}^m has-next patterns; after every step the full observation must equal a fresh instance's.",
   "Outcomes identical on the fresh instance (including panics) are left to C03.",
   "exhaustive history exploration (replay on fresh instance) with fresh-instance differential oracle", "§3 C05"),
 "C06": ("model_checking",
   "Full matrix over a boundary pool (66 values quick / 103 thorough): all ordered pairs x 19 binary operators + all values x 2 unary operators x both managers against a reference operator table; relational laws on every ordered pair; operands unchanged.",
   "Convert of the manager under test supplies the converted second operand (C07 decides Convert); first-operand types outside the statement's list are only required not to crash and to return exactly one of result/error.",
   "exhaustive value-matrix enumeration vs reference operator table", "§3 C06"),
 "C07": ("model_checking",
   "Full matrix: every pool value x 11 target types x both managers against a reference conversion table, plus every two-step chain of the lossless table for every pool value in exact range.",
   "String parsing/formatting is done by the external commons converters (trusted base).",
   "exhaustive value x type matrix and two-step chains vs reference conversion table", "§3 C07"),
 "C11": ("model_checking",
   "Explicit-state BFS of the real StringScanner: the complete reachable state graph of every content over {x,LF,CR} up to the length bound under {Read,Unread,UnreadMany(2),UnreadMany(3),Reset}; every state compared with a cursor model, an independent line/column rule and a fresh forward scan of the real scanner. Exhaustive within the bound, which is the right level for a 4-field object whose graph closes after len+2 states.",
   "Trusted: Go reflection reads the unexported position field for the state key only (oracle uses observable results); peek law asserted where a next character exists.",
   "explicit-state BFS over operation histories (replay on fresh instance) vs reference cursor model", "§3 C11"),
 "C12": ("model_checking",
   "4 tokenizers x every string up to length 4-5 (quick) / 5-6 (thorough) over alphabets with LF, CR, quote, comment opener, multi-character symbol and unknown character x 11 (quick) / all 128 (thorough) option sets; every token's position compared with the forward-scan coordinates of its first character, tokens under options aligned with their originals through the C15 transformer.",
   "Assumes C04 and C15 hold for the (input, options) pair (otherwise skipped and counted); coordinates as defined by C11.",
   "bounded exhaustive input x configuration enumeration vs coordinate rule model", "§3 C12"),
 "C13": ("model_checking",
   "Generator-as-model: every sequence of <=3 (quick) / <=4 (thorough, 56M) class-tagged lexemes from pools of 53/67 lexemes, blank-separated and abutting where a conservative boundary table allows; the real tokenizer must return exactly those lexemes and classes.",
   "The abutting table only skips sequences, it never predicts a segmentation.",
   "bounded exhaustive sentence generation from the lexical grammar, replayed against the tokenizer", "§3 C13"),
 "C14": ("model_checking",
   "Every string up to length 5 (quick) / 7 (thorough, 43M) over {quote, other quote, 1-4 byte characters, space, LF} x 3 quote characters x 3 quote states: decode total, decode(encode(s))=s, and the encoding in a stream read back as one token leaving the scanner at the tail.",
   "One representative per UTF-8 width.",
   "bounded exhaustive input enumeration vs inverse/totality oracle", "§3 C14"),
 "C15": ("model_checking",
   "4 tokenizers x every string up to length 4-5 (quick) / 5-6 (thorough) x all 128 option sets (142M tokenizations thorough): stream(opts) == T(opts, stream(no options)) for a reference transformer that only drops or rewrites whole tokens.",
   "Assumes C04 for the input (otherwise skipped and counted); termination by scanner step budget.",
   "exhaustive configuration x input enumeration vs reference stream transformer", "§3 C15"),
 "C16": ("model_checking",
   "Symbol sets = subsets of the 14 strings of length 1..3 over {a,b} (|S|<=3 quick, all 16384 thorough), every registration order for small sets, every pair (triple) of reads over all inputs up to length 3-4, and read-all/Add/read-all monotonicity; each read compared with 'longest registered prefix else one character' for text, type and consumed length; also over a non-Latin alphabet.",
   "Trees are rebuilt for every read sequence.",
   "exhaustive configuration x history exploration vs longest-prefix reference", "§3 C16"),
 "C17": ("model_checking",
   "All histories of AddInterval/AddDefaultInterval/Clear over the boundary endpoints x {A,B,nil} to depth 2 (quick) / 3 (thorough, 681k un-merged) plus probe-vector BFS to depth 3/5, each compared probe by probe with an interval-list model by reference identity; derived checks through a real tokenizer's dispatch table and the word/whitespace range toggles.",
   "Probe-vector canonicalisation argument in DESIGN.md; the un-merged enumeration does not rely on it.",
   "exhaustive history enumeration + explicit-state BFS vs interval-list model", "§3 C17"),
 "C20": ("model_checking",
   "Every host value of every listed Go type x 5 construction paths vs a reference type mapping; Equals over the full pool x pool; every history of length <=4 (quick) / <=5 (thorough, 580k) over 14 operations on two variants and a caller-owned list against a value model in which every variant owns its list.",
   "After Assign of an array the model does not predict sharing; Equals on same-instant date-times in different zones and on uncomparable payloads only needs symmetry and no panic.",
   "exhaustive input enumeration + operation-history exploration vs value model", "§3 C20"),
}
NOT_YET = "check not built yet in this revision (work in progress; planned in DESIGN.md §3)"
ALL = ["C%02d" % i for i in range(1, 21)]
m = {
 "version": 1,
 "setup_cmd": "./setup.sh",
 "hooks": {
   "guard": "verif",
   "enable": "no source hooks are committed to the repository; checks build the harness module /verif/mc with a go.mod replace directive pointing at the repository's current working tree",
   "baseline_off_cmd": "cd /repo && GOFLAGS=-mod=mod GOPROXY=off GOSUMDB=off GOTOOLCHAIN=local go test -json -vet=off -count=1 -timeout 25m ./...",
   "source_commits": [],
   "add_only": True,
 },
 "engines": [
   {"name": "verifmc", "path": "mc/", "serves_properties": sorted(CHECKS),
    "kind_free_text": "hand-written Go bounded-exhaustive explorer: index-addressable input/history spaces sharded over watchdogged worker subprocesses, explicit-state BFS with replay-on-fresh-instance successors, reference models in Go, every violation re-executed in a fresh process and written as a replay file"},
 ],
 "checks": [],
 "not_applicable": [],
 "notes": "All checks rebuild mc/ against /repo's working tree (VERIF_REPO overrides). known_findings.json is read-only at run time.",
}
for cid in ALL:
    if cid in CHECKS:
        cat, text, note, tech, ref = CHECKS[cid]
        m["checks"].append({
          "property_id": cid,
          "quick_cmd": "./run_check.sh %s quick" % cid,
          "thorough_cmd": "./run_check.sh %s thorough" % cid,
          "evidence_file": "evidence/%s.json" % cid,
          "replay_cmd_template": "./run_check.sh replay {path}",
          "engine": "verifmc",
          "level_claimed": {"category": cat, "text": text, "design_ref": ref},
          "level_note": note,
          "technique": tech,
        })
    else:
        m["not_applicable"].append({"property_id": cid, "reason": NOT_YET})
json.dump(m, open(os.path.join(V, "MANIFEST.json"), "w"), indent=1)
print("MANIFEST.json: %d checks, %d not_applicable" % (len(m["checks"]), len(m["not_applicable"])))
