package checks

import (
	_ "time/tzdata"
	"fmt"
	"math"
	"reflect"
	"time"

	"verifmc/fw"

	"github.com/pip-services3-gox/pip-services3-expressions-gox/variants"
)

// C07 — variant conversions deliver the requested type and round-trip losslessly.

var allTypes = []variants.VariantType{variants.Null, variants.Integer, variants.Long, variants.Float, variants.Double, variants.String,
	variants.Boolean, variants.DateTime, variants.TimeSpan, variants.Object, variants.Array}

var typeNames = []string{"Null", "Integer", "Long", "Float", "Double", "String", "Boolean", "DateTime", "TimeSpan", "Object", "Array"}

func tn(t variants.VariantType) string {
	if int(t) >= 0 && int(t) < len(typeNames) {
		return typeNames[t]
	}
	return fmt.Sprintf("T%d", t)
}

func opsManager(safe bool) variants.IVariantOperations {
	if safe {
		return variants.NewTypeSafeVariantOperations()
	}
	return variants.NewTypeUnsafeVariantOperations()
}

func finiteInRange(f float64) bool {
	return !math.IsNaN(f) && !math.IsInf(f, 0) && math.Abs(f) < 9e18
}

// payloadEq compares payloads (NaN equals NaN here, arrays by element identity).
func payloadEq(a, b interface{}) bool {
	switch x := a.(type) {
	case float32:
		y, ok := b.(float32)
		return ok && (x == y || (x != x && y != y))
	case float64:
		y, ok := b.(float64)
		return ok && (x == y || (x != x && y != y))
	case time.Time:
		y, ok := b.(time.Time)
		return ok && x.Equal(y)
	case []*variants.Variant:
		y, ok := b.([]*variants.Variant)
		if !ok || len(x) != len(y) {
			return false
		}
		for i := range x {
			if x[i] == y[i] {
				continue
			}
			// (the same element object, or an equal value where lists are copied deeply)
			if x[i] == nil || y[i] == nil || x[i].Type() != y[i].Type() || !payloadEq(x[i].AsObject(), y[i].AsObject()) {
				return false
			}
		}
		return true
	}
	return reflect.DeepEqual(a, b)
}

// refConvertUnsafe: the reference conversion table of the type-unsafe manager.
// status: "ok" (must succeed with payload, if known), "err" (must fail) or "either".
func refConvertUnsafe(v *variants.Variant, to variants.VariantType) (status string, payload interface{}, known bool) {
	from := v.Type()
	if to == variants.Null {
		return "ok", nil, true
	}
	if to == from || to == variants.Object {
		return "ok", v.AsObject(), true
	}
	if to == variants.String {
		switch from {
		case variants.Boolean:
			return "ok", fmt.Sprint(v.AsBoolean()), true
		case variants.Integer:
			return "ok", fmt.Sprint(v.AsInteger()), true
		case variants.Long:
			return "ok", fmt.Sprint(v.AsLong()), true
		}
		return "either", nil, false
	}
	b2 := func(b bool) int {
		if b {
			return 1
		}
		return 0
	}
	switch from {
	case variants.Null:
		switch to {
		case variants.Integer:
			return "either", 0, true
		case variants.Long:
			return "either", int64(0), true
		case variants.Float:
			return "either", float32(0), true
		case variants.Double:
			return "either", float64(0), true
		case variants.Boolean:
			return "either", false, true
		}
		return "either", nil, false
	case variants.Integer:
		x := v.AsInteger()
		switch to {
		case variants.Long:
			return "ok", int64(x), true
		case variants.Float:
			return "ok", float32(x), true
		case variants.Double:
			return "ok", float64(x), true
		case variants.Boolean:
			return "ok", x != 0, true
		case variants.TimeSpan:
			if x > -9e12 && x < 9e12 {
				return "ok", time.Duration(x) * time.Millisecond, true
			}
			return "ok", nil, false
		case variants.DateTime:
			if x > -(1<<40) && x < 1<<40 {
				return "ok", time.Unix(int64(x), 0), true
			}
			return "ok", nil, false
		}
		return "either", nil, false
	case variants.Long:
		x := v.AsLong()
		switch to {
		case variants.Integer:
			return "ok", int(x), true
		case variants.Float:
			return "ok", float32(x), true
		case variants.Double:
			return "ok", float64(x), true
		case variants.Boolean:
			return "ok", x != 0, true
		case variants.TimeSpan:
			if x > -9e12 && x < 9e12 {
				return "ok", time.Duration(x) * time.Millisecond, true
			}
			return "ok", nil, false
		case variants.DateTime:
			if x > -(1<<40) && x < 1<<40 {
				return "ok", time.Unix(x, 0), true
			}
			return "ok", nil, false
		}
		return "either", nil, false
	case variants.Float:
		x := float64(v.AsFloat())
		switch to {
		case variants.Integer:
			return "either", int(math.Trunc(x)), finiteInRange(x)
		case variants.Long:
			return "either", int64(math.Trunc(x)), finiteInRange(x)
		case variants.Double:
			return "ok", x, true
		case variants.Boolean:
			return "ok", x != 0, true
		}
		return "either", nil, false
	case variants.Double:
		x := v.AsDouble()
		switch to {
		case variants.Integer:
			return "either", int(math.Trunc(x)), finiteInRange(x)
		case variants.Long:
			return "either", int64(math.Trunc(x)), finiteInRange(x)
		case variants.Float:
			return "either", float32(x), true
		case variants.Boolean:
			return "ok", x != 0, true
		}
		return "either", nil, false
	case variants.Boolean:
		x := b2(v.AsBoolean())
		switch to {
		case variants.Integer:
			return "ok", x, true
		case variants.Long:
			return "ok", int64(x), true
		case variants.Float:
			return "ok", float32(x), true
		case variants.Double:
			return "ok", float64(x), true
		}
		return "either", nil, false
	case variants.TimeSpan:
		x := v.AsTimeSpan()
		switch to {
		case variants.Integer:
			return "ok", int(x.Milliseconds()), true
		case variants.Long:
			return "ok", x.Milliseconds(), true
		}
		return "either", nil, false
	case variants.DateTime:
		x := v.AsDateTime()
		switch to {
		case variants.Integer:
			return "ok", int(x.Unix()), true
		case variants.Long:
			return "ok", x.Unix(), true
		}
		return "either", nil, false
	}
	// String sources go through the external commons converters (trusted base): payload not predicted here
	return "either", nil, false
}

// safeAllowed: the whitelist of the type-safe manager.
func safeAllowed(from, to variants.VariantType) bool {
	if to == variants.Null || to == variants.Object || to == from {
		return true
	}
	switch from {
	case variants.Integer:
		return to == variants.Long || to == variants.Float || to == variants.Double
	case variants.Long:
		return to == variants.Float || to == variants.Double
	case variants.Float:
		return to == variants.Double
	}
	return false
}

func c07Matrix(c *fw.Ctx, pool []poolVal, i int64) {
	safe := i%2 == 1
	i /= 2
	to := allTypes[int(i)%len(allTypes)]
	src := pool[int(i)/len(allTypes)]
	v := src.mk()
	from := v.Type()
	snapshot := variantStr(v)
	ops := opsManager(safe)
	var r *variants.Variant
	var err error
	pv := fw.Try(func() { r, err = ops.Convert(v, to) })
	c.Eval(1)
	mgr := map[bool]string{false: "type-unsafe", true: "type-safe"}[safe]
	desc := fmt.Sprintf("%s Convert(%s, %s)", mgr, src.label, tn(to))
	if pv != nil {
		c.Violation("convert-panics:"+mgr, "%s panics: %s", desc, panicShort(pv))
		return
	}
	if (r == nil) == (err == nil) {
		c.Violation("convert-result-xor-error:"+mgr, "%s returns result=%v err=%v", desc, r != nil, err)
		return
	}
	if variantStr(v) != snapshot {
		c.Violation("convert-mutates-operand", "%s changed its operand from %s to %s", desc, snapshot, variantStr(v))
	}
	c.Outcome(fmt.Sprintf("%s:%s->%s:%v", mgr, tn(from), tn(to), err == nil))
	if from != to {
		c.Nontrivial()
	}
	status, payload, known := refConvertUnsafe(v, to)
	if safe {
		if !safeAllowed(from, to) {
			if err == nil {
				c.Violation(fmt.Sprintf("type-safe-permits:%s->%s", tn(from), tn(to)), "%s succeeds with %s; the type-safe manager permits only the numeric widenings", desc, variantStr(r))
			}
			return
		}
		status = "ok"
	}
	if err != nil {
		if status == "ok" {
			c.Violation(fmt.Sprintf("convert-fails:%s:%s->%s", mgr, tn(from), tn(to)), "%s fails: %v", desc, err)
		}
		return
	}
	if status == "err" {
		c.Violation("convert-should-fail:"+mgr, "%s succeeds with %s", desc, variantStr(r))
		return
	}
	wantType := to
	if to == variants.Object {
		wantType = from
	}
	if r.Type() != wantType {
		c.Violation(fmt.Sprintf("convert-wrong-type:%s", mgr), "%s returns type %s, requested %s", desc, tn(r.Type()), tn(wantType))
		return
	}
	if known && !payloadEq(r.AsObject(), payload) {
		c.Violation(fmt.Sprintf("convert-wrong-value:%s:%s->%s", mgr, tn(from), tn(to)), "%s = %s, reference value %#v", desc, variantStr(r), payload)
		return
	}
	if safe {
		// agrees with the type-unsafe manager wherever it succeeds
		u, uerr := variants.NewTypeUnsafeVariantOperations().Convert(src.mk(), to)
		if uerr != nil || u == nil || u.Type() != r.Type() || !payloadEq(u.AsObject(), r.AsObject()) {
			if !(from == variants.Array || from == variants.Object) || uerr != nil {
				if from == variants.Array && uerr == nil && u.Type() == r.Type() {
					return // different element slices of different fresh source variants
				}
				c.Violation("managers-disagree", "%s = %s but type-unsafe gives %s (%v)", desc, variantStr(r), variantStr(u), uerr)
			}
		}
	}
}

type c07Chain struct {
	from, via variants.VariantType
	ok        func(v *variants.Variant) bool // value is inside the exact range
}

func c07Chains() []c07Chain {
	always := func(*variants.Variant) bool { return true }
	intAbs := func(limit float64) func(v *variants.Variant) bool {
		lim := int64(limit)
		return func(v *variants.Variant) bool {
			var x int64
			if v.Type() == variants.Integer {
				x = int64(v.AsInteger())
			} else {
				x = v.AsLong()
			}
			return x >= -lim && x <= lim
		}
	}
	ch := []c07Chain{
		{variants.Integer, variants.Long, always},
		{variants.Long, variants.Integer, always},
		{variants.Integer, variants.Double, intAbs(1 << 53)},
		{variants.Long, variants.Double, intAbs(1 << 53)},
		{variants.Integer, variants.Float, intAbs(1 << 24)},
		{variants.Long, variants.Float, intAbs(1 << 24)},
		{variants.Float, variants.Double, always},
		{variants.Integer, variants.TimeSpan, intAbs(9e12)},
		{variants.Long, variants.TimeSpan, intAbs(9e12)},
		{variants.TimeSpan, variants.Integer, func(v *variants.Variant) bool { return v.AsTimeSpan()%time.Millisecond == 0 }},
		{variants.TimeSpan, variants.Long, func(v *variants.Variant) bool { return v.AsTimeSpan()%time.Millisecond == 0 }},
		{variants.Integer, variants.DateTime, intAbs(1 << 40)},
		{variants.Long, variants.DateTime, intAbs(1 << 40)},
		{variants.DateTime, variants.Integer, func(v *variants.Variant) bool { return v.AsDateTime().Nanosecond() == 0 && !v.AsDateTime().IsZero() }},
		{variants.DateTime, variants.Long, func(v *variants.Variant) bool { return v.AsDateTime().Nanosecond() == 0 }},
		{variants.Integer, variants.String, intAbs(1 << 53)},
		{variants.Long, variants.String, intAbs(1 << 53)},
		{variants.Boolean, variants.String, always},
	}
	for _, t := range []variants.VariantType{variants.Integer, variants.Long, variants.Float, variants.Double} {
		ch = append(ch, c07Chain{variants.Boolean, t, always})
	}
	return ch
}

func c07ChainRun(c *fw.Ctx, pool []poolVal, chains []c07Chain, i int64) {
	ch := chains[int(i)%len(chains)]
	src := pool[int(i)/len(chains)]
	v := src.mk()
	if v.Type() != ch.from || !ch.ok(v) {
		c.Outcome("chain-not-applicable")
		return
	}
	ops := opsManager(false)
	var mid, back *variants.Variant
	var e1, e2 error
	pv := fw.Try(func() {
		mid, e1 = ops.Convert(v, ch.via)
		if e1 == nil && mid != nil {
			back, e2 = ops.Convert(mid, ch.from)
		}
	})
	c.Eval(2)
	c.Nontrivial()
	desc := fmt.Sprintf("%s -> %s -> %s", src.label, tn(ch.via), tn(ch.from))
	sig := fmt.Sprintf("roundtrip:%s->%s", tn(ch.from), tn(ch.via))
	if pv != nil || e1 != nil || e2 != nil || mid == nil || back == nil {
		c.Violation(sig+":fails", "%s: panic=%v err1=%v err2=%v", desc, pv, e1, e2)
		return
	}
	if mid.Type() != ch.via || back.Type() != ch.from {
		c.Violation(sig+":types", "%s: intermediate type %s, final type %s", desc, tn(mid.Type()), tn(back.Type()))
		return
	}
	if !payloadEq(back.AsObject(), v.AsObject()) {
		c.Violation(sig+":lossy", "%s: came back as %s (intermediate %s)", desc, variantStr(back), variantStr(mid))
		return
	}
	c.Outcome("roundtrip-ok:" + tn(ch.from) + "->" + tn(ch.via))
}

// ---- conversions between instants and numbers under a local time zone with daylight saving:
// every second next to (and inside the repeated / skipped hour of) every offset change of a year

var c07Zones = []string{"America/New_York", "Europe/London", "Australia/Lord_Howe", "Asia/Kathmandu"}

// c07ZoneSeconds: unix seconds around every change of the zone's UTC offset in 2021
func c07ZoneSeconds(loc *time.Location) []int64 {
	out := []int64{}
	start := time.Date(2021, 1, 1, 0, 0, 0, 0, time.UTC).Unix()
	_, prev := time.Unix(start, 0).In(loc).Zone()
	for t := start; t < start+366*86400; t += 900 {
		_, off := time.Unix(t, 0).In(loc).Zone()
		if off != prev {
			prev = off
			for _, d := range []int64{-7201, -3601, -3600, -1800, -1, 0, 1, 1799, 1800, 3599, 3600, 7200} {
				out = append(out, t+d)
			}
		}
	}
	if len(out) == 0 {
		out = []int64{start, start + 15552000}
	}
	return out
}

func c07LocalZone(c *fw.Ctx, zi int, safe bool) {
	loc, err := time.LoadLocation(c07Zones[zi])
	if err != nil {
		c.Outcome("zone-data-unavailable")
		return
	}
	saved := time.Local
	time.Local = loc
	defer func() { time.Local = saved }()
	ops := opsManager(safe)
	for _, sec := range c07ZoneSeconds(loc) {
		for _, from := range []*variants.Variant{variants.VariantFromLong(sec), variants.VariantFromInteger(int(sec))} {
			var d, back *variants.Variant
			var e1, e2 error
			pv := fw.Try(func() {
				d, e1 = ops.Convert(from, variants.DateTime)
				if e1 == nil && d != nil {
					back, e2 = ops.Convert(d, from.Type())
				}
			})
			c.Eval(2)
			if pv != nil {
				c.Violation("convert-panics:"+mgrName(safe), "local zone %s: %s Convert(%s, DateTime) panics: %s", c07Zones[zi], mgrName(safe), variantStr(from), panicShort(pv))
				continue
			}
			if e1 != nil || d == nil {
				if !safe {
					c.Violation("convert-fails:type-unsafe:number->DateTime", "local zone %s: Convert(%s, DateTime) fails: %v", c07Zones[zi], variantStr(from), e1)
				}
				continue // the type-safe manager does not permit the conversion
			}
			if d.Type() != variants.DateTime || !d.AsDateTime().Equal(time.Unix(sec, 0)) {
				c.Violation("convert-wrong-value:number->DateTime:local-zone", "local zone %s: %s Convert(%s, DateTime) = %s, the instant %d seconds after the epoch is %s", c07Zones[zi], mgrName(safe), variantStr(from), variantStr(d), sec, time.Unix(sec, 0).UTC().Format(time.RFC3339))
				continue
			}
			if e2 == nil && back != nil && variantStr(back) != variantStr(from) {
				c.Violation("roundtrip:number->DateTime->number:local-zone", "local zone %s: %s %s -> DateTime -> %s gives %s", c07Zones[zi], mgrName(safe), variantStr(from), tn(from.Type()), variantStr(back))
			}
		}
	}
	c.Nontrivial()
	c.Outcome("zone:" + c07Zones[zi])
}

// ---- strings that collide under the usual hash functions, converted one after the other on ONE manager:
// the second conversion must give what a fresh manager gives (and what the text says)

func c07Twins(c *fw.Ctx, i int64) {
	tw := digitTwins()
	if len(tw) == 0 {
		c.Outcome("no-twins")
		return
	}
	safe := i%2 == 1
	i /= 2
	targets := []variants.VariantType{variants.Integer, variants.Long, variants.Float, variants.Double}
	to := targets[int(i)%len(targets)]
	i /= int64(len(targets))
	swap := i%2 == 1
	p := tw[int(i/2)%len(tw)]
	a, b := p.a, p.b
	if swap {
		a, b = b, a
	}
	m := opsManager(safe)
	fresh := opsManager(safe)
	var r1, r2, f2 *variants.Variant
	var e1, e2, fe2 error
	pv := fw.Try(func() {
		r1, e1 = m.Convert(variants.VariantFromString(a), to)
		r2, e2 = m.Convert(variants.VariantFromString(b), to)
		f2, fe2 = fresh.Convert(variants.VariantFromString(b), to)
	})
	c.Eval(3)
	_ = r1
	_ = e1
	if pv != nil {
		c.Violation("convert-panics:"+mgrName(safe), "%s Convert of %q then %q to %s panics: %s", mgrName(safe), a, b, tn(to), panicShort(pv))
		return
	}
	if outcomeStr(r2, e2, nil) != outcomeStr(f2, fe2, nil) {
		c.Violation("conversion-depends-on-previous-conversion", "%s manager: Convert(%q, %s) right after Convert(%q, %s) gives %s, a fresh manager gives %s (the two texts have the same length and the same %s hash)", mgrName(safe), b, tn(to), a, tn(to), outcomeStr(r2, e2, nil), outcomeStr(f2, fe2, nil), p.hash)
	}
	c.Nontrivial()
	c.Outcome("twins:" + p.hash)
}

func init() {
	fw.Register(&fw.Check{
		ID:    "C07",
		Level: "model_checking",
		Rule: "full matrix: every pool value (all variant types with boundaries) x all 11 target types x both managers against a reference conversion table (result type, payload where the table defines it, result XOR error, operand unchanged, type-safe whitelist, managers agree); " +
			"plus the same matrix on a long-lived manager with a source object that was converted once and then changed in place (must equal a fresh object), and every conversion repeated after the caller overwrote the returned variant; plus Integer/Long <-> DateTime with the process's local zone set to four zones with daylight saving / odd offsets, for the seconds around (and inside the repeated or skipped hour of) every offset change of 2021; plus pairs of equal-length numeric strings that collide under FNV-1/1a, CRC-32C or Adler-32 converted one after the other on one manager (must equal a fresh manager's answer); plus every two-step chain src->dst->src of the lossless table for every pool value inside the exact range; non-trivial = conversions to a different type / applicable chains",
		Assume: []string{"string->number/date parsing and any->string formatting are done by the external commons converters (trusted base); their payloads are not predicted except Integer/Long/Boolean->String", "conversions the statement does not list may succeed or fail in the type-unsafe manager"},
		Spaces: func(tier string) []fw.Space {
			pool := valuePool("thorough")
			chains := c07Chains()
			return []fw.Space{
				{Name: "matrix", N: int64(len(pool) * len(allTypes) * 2), Run: func(c *fw.Ctx, i int64) { c07Matrix(c, pool, i) },
					Repr: func(i int64) string {
						return fmt.Sprintf("%s Convert(%s, %s)", map[bool]string{false: "type-unsafe", true: "type-safe"}[i%2 == 1], pool[int(i/2)/len(allTypes)].label, tn(allTypes[int(i/2)%len(allTypes)]))
					}},
				{Name: "reused-source", N: int64(len(pool) * len(allTypes) * 2), Run: func(c *fw.Ctx, i int64) { c07Reuse(c, pool, i) },
					Repr: func(i int64) string {
						return fmt.Sprintf("%s Convert to %s on a reused manager, source object first holding %s then changed in place", mgrName(i%2 == 1), tn(allTypes[int(i/2)%len(allTypes)]), pool[int(i/2)/len(allTypes)].label)
					}},
				{Name: "result-isolation", N: int64(len(pool) * len(allTypes) * 2), Run: func(c *fw.Ctx, i int64) {
					to := int(i/2) % len(allTypes)
					src := int(i/2) / len(allTypes)
					c06ResultIsolation(c, pool, int64(src*len(pool)+src)*2+i%2, to)
				}, Repr: func(i int64) string {
					return fmt.Sprintf("%s Convert(%s, %s), result overwritten by the caller, same conversion again", mgrName(i%2 == 1), pool[int(i/2)/len(allTypes)].label, tn(allTypes[int(i/2)%len(allTypes)]))
				}},
				{Name: "local-zone-instants", N: int64(len(c07Zones) * 2), Run: func(c *fw.Ctx, i int64) { c07LocalZone(c, int(i/2), i%2 == 1) },
					Repr: func(i int64) string {
						return fmt.Sprintf("%s number <-> DateTime with time.Local = %s, seconds around every offset change of 2021", mgrName(i%2 == 1), c07Zones[i/2])
					}},
				{Name: "hash-twins", N: 5 * 2 * 4 * 2, Run: c07Twins,
					Repr: func(i int64) string { return fmt.Sprintf("two equal-length numeric strings with one hash value converted one after the other (#%d)", i) }},
				{Name: "chains", N: int64(len(pool) * len(chains)), Run: func(c *fw.Ctx, i int64) { c07ChainRun(c, pool, chains, i) },
					Repr: func(i int64) string {
						ch := chains[int(i)%len(chains)]
						return fmt.Sprintf("%s -> %s -> %s", pool[int(i)/len(chains)].label, tn(ch.via), tn(ch.from))
					}},
			}
		},
		Bounds: func(tier string) string { return "whole pool (both tiers): pool x 11 targets x 2 managers; pool x 22 round-trip chains" },
	})
}

// c07Reuse: Convert on a long-lived manager with a source object that is converted, changed in place
// to another value of its type, and converted again; must equal converting a fresh object.
func c07Reuse(c *fw.Ctx, pool []poolVal, i int64) {
	safe := i%2 == 1
	i /= 2
	to := allTypes[int(i)%len(allTypes)]
	is := int(i) / len(allTypes)
	p2, ok := nextOfType(pool, is)
	if !ok {
		c.Outcome("no-second-value-of-that-type")
		return
	}
	m := sharedManager(safe)
	v := pool[is].mk()
	fw.Try(func() { m.Convert(v, to) })
	v.Assign(p2.mk())
	var r, fr *variants.Variant
	var err, ferr error
	pv := fw.Try(func() { r, err = m.Convert(v, to) })
	fpv := fw.Try(func() { fr, ferr = opsManager(safe).Convert(p2.mk(), to) })
	c.Eval(2)
	c.Nontrivial()
	got, want := outcomeStr(r, err, pv), outcomeStr(fr, ferr, fpv)
	if got != want {
		c.Violation("stale-conversion-with-reused-source:"+tn(to), "%s Convert(%s, %s) on a reused manager after the same object held %s: %s; a fresh object gives %s", mgrName(safe), p2.label, tn(to), pool[is].label, got, want)
	}
}
