#!/usr/bin/env python3
"""usage: mk_seed_round.py <round-letter> <theme-file> [ids...]
Prepares one round of independent seeding: for every property a history-less scratch worktree
/tmp/seed-<id>-<round> of /repo HEAD and a prompt /tmp/seedprompts/<id>-<round>.txt holding ONLY the
property text, the summaries of earlier seeds for that property (so the new one differs) and the theme.
Nothing from /verif other than that is shown to the sub-agent."""
import json, os, subprocess, sys, glob
rnd, theme_file = sys.argv[1], sys.argv[2]
ids = sys.argv[3:]
theme = open(theme_file).read().strip()
props = [json.loads(l) for l in open('/verif/properties.jsonl')]
os.makedirs('/tmp/seedprompts', exist_ok=True)
tree = subprocess.check_output(['git', '-C', '/repo', 'rev-parse', 'HEAD^{tree}'], text=True).strip()
commit = subprocess.check_output(['git', '-C', '/repo', 'commit-tree', tree, '-m', 'snapshot'], text=True).strip()
for p in props:
    pid = p['id']
    if ids and pid not in ids:
        continue
    wt = f'/tmp/seed-{pid}-{rnd}'
    if not os.path.isdir(wt):
        subprocess.check_call(['git', '-C', '/repo', 'worktree', 'add', '-q', '--detach', wt, commit])
    prev = []
    for m in sorted(glob.glob(f'/verif/seeded/{pid}-*/meta.json')):
        try:
            s = json.load(open(m)).get('summary') or ''
        except Exception:
            s = ''
        if s:
            prev.append(' - ' + s[:240].replace('\n', ' '))
    txt = f"""You are working in a scratch git worktree of a Go library at {wt} (Go module github.com/pip-services3-gox/pip-services3-expressions-gox: tokenizers, an expression parser + RPN calculator over dynamic Variants, a CSV tokenizer and a small Mustache engine). Work ONLY inside {wt}. Never read or touch /repo, /verif or any other directory outside your worktree.

Every go command needs: export GOFLAGS=-mod=mod GOPROXY=off GOSUMDB=off GOTOOLCHAIN=local  (the sandbox is offline). The existing test suite is run with: go test -vet=off -count=1 ./...   and must pass completely.

PROPERTY ({pid}) — {p['title']}
Statement: {p['statement']}
Quantified over: {p['quantifier']['text']}

Do not look for inspiration in version-control history; invent a NEW defect.

{len(prev)} previous, different attempts at this task already produced the following changes; yours must be DIFFERENT from all of them (another function or file, another mechanism):
""" + '\n'.join(prev) + f"""
{theme}

TASK: make ONE realistic change to the library's non-test source that BREAKS this property while
 (1) the library still compiles,
 (2) ALL existing tests still pass (run them),
 (3) the breakage needs something specific to manifest — a particular multi-step sequence of operations, an unusual input, a particular interleaving, or two cooperating sites that each look fine alone — NOT something that ordinary use would expose at once. Think of what a maintainer could plausibly introduce by a refactoring, an optimisation, a cache, an off-by-one, a reordered statement. Keep the change small (a few lines, at most ~30).
Then write a demonstration: a Go test file test/seeddemo/seed_demo_test.go (package seeddemo, using only the library's public API) that FAILS with your change and PASSES on the original code — verify both (use `git diff > SEED/patch.diff; git apply -R SEED/patch.diff` and `git apply SEED/patch.diff` to switch; do NOT use `git stash`: the stash is shared with other worktrees).
Finally create in {wt}/SEED/ : patch.diff (output of `git diff` for the library source change only, NOT including the demo test), demo_test.go (copy of the demonstration test), meta.json with keys property, name (a short-kebab-case name for the change), summary, needs_to_manifest, files_changed, how_verified.
Finish with a short summary (<=8 lines): what you changed, what it needs to manifest, and the commands you ran with their results. Do not commit anything.
"""
    open(f'/tmp/seedprompts/{pid}-{rnd}.txt', 'w').write(txt)
    print(pid, wt, len(prev), 'earlier seeds listed')
