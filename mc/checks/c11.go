package checks

import (
	"unicode"
	"fmt"
	"math"
	"strings"

	"verifmc/fw"
	"verifmc/snap"

	rio "github.com/pip-services3-gox/pip-services3-expressions-gox/io"
)

// C11 — the string scanner is a faithful cursor with position-only line/column.
// Kind H: full reachable state graph per content, explored breadth-first with
// replay-on-fresh-instance successors.

var c11Alphabet = []rune{'x', '\n', '\r'}

type c11Op int

const (
	opRead c11Op = iota
	opUnread
	opUnread2
	opUnread3
	opReset
	opUnread7
	opUnreadAll
	opPeeks      // Peek, PeekLine, PeekColumn: observers, must be self-loops of the state graph
	opLineCol    // Line, Column: observers
	opUnreadZero // UnreadMany(0), UnreadMany(-1), UnreadMany(math.MinInt): nothing to step back, self-loops
)

var c11OpNames = []string{"Read", "Unread", "UnreadMany(2)", "UnreadMany(3)", "Reset", "UnreadMany(7)", "UnreadMany(len+3)", "Peek+PeekLine+PeekColumn", "Line+Column", "UnreadMany(0)+UnreadMany(-1)+UnreadMany(MinInt)"}

// forwardLC is the independent rule model: coordinates after reading
// characters 0..p (p may be len: the end-of-input slot adds nothing).
func forwardLC(content []rune, p int) (int, int) {
	if c11RealForward != nil {
		k := p + 1
		if k < 0 {
			k = 0
		}
		if k >= len(c11RealForward) {
			k = len(c11RealForward) - 1
		}
		return c11RealForward[k][0], c11RealForward[k][1]
	}
	line, col := 1, 0
	at := func(i int) rune {
		if i < 0 || i >= len(content) {
			return -1
		}
		return content[i]
	}
	for i := 0; i <= p && i < len(content); i++ {
		ch := content[i]
		if ch == '\n' {
			line++
			col = 0
		} else if ch == '\r' {
			if at(i-1) != '\n' && at(i+1) != '\n' {
				line++
				col = 0
			}
		} else {
			col++
		}
	}
	return line, col
}

func c11Apply(s *rio.StringScanner, op c11Op) rune {
	switch op {
	case opRead:
		return s.Read()
	case opUnread:
		s.Unread()
	case opUnread2:
		s.UnreadMany(2)
	case opUnread3:
		s.UnreadMany(3)
	case opReset:
		s.Reset()
	case opUnread7:
		s.UnreadMany(7)
	case opUnreadAll:
		s.UnreadMany(c11Len(s) + 3)
	case opPeeks:
		s.Peek()
		s.PeekLine()
		s.PeekColumn()
	case opLineCol:
		s.Line()
		s.Column()
	case opUnreadZero:
		s.UnreadMany(0)
		s.UnreadMany(-1)
		s.UnreadMany(math.MinInt)
	}
	return -2
}

// c11ContentLen: number of characters of the content the current graph is explored for
var c11ContentLen int

func c11Len(s *rio.StringScanner) int { return c11ContentLen }

func c11Model(content []rune, p int, op c11Op) (int, rune) {
	n := len(content)
	switch op {
	case opRead:
		if p < n {
			p++
		}
		if p < n {
			return p, content[p]
		}
		return p, -1
	case opUnread:
		if p > -1 {
			p--
		}
	case opUnread2, opUnread3, opUnread7, opUnreadAll:
		k := 2
		switch op {
		case opUnread3:
			k = 3
		case opUnread7:
			k = 7
		case opUnreadAll:
			k = n + 3
		}
		for ; k > 0; k-- {
			if p > -1 {
				p--
			}
		}
	case opReset:
		p = -1
	}
	return p, -2
}

func c11HistStr(h []c11Op) string {
	parts := []string{}
	for _, o := range h {
		parts = append(parts, c11OpNames[o])
	}
	return strings.Join(parts, ",")
}

func c11Content(i int64, maxLen int) string {
	return stringByIndex(c11Alphabet, i)
}

// one character of every Unicode general category and every boundary character, in four short contexts
// (after a character, after a line break, doubled, before a line break)
func c11ClassChars() []rune { return boundaryChars }

func c11ClassContent(i int64) string {
	chars := c11ClassChars()
	ch := string(chars[int(i)/4])
	switch i % 4 {
	case 0:
		return "x" + ch + "x"
	case 1:
		return ch + "\n" + ch
	case 2:
		return "\r\n" + ch + ch
	}
	return "x" + ch + "\r" + "x"
}

// c11RealForward: for contents with an exotic character (c11Exotic) the statement does not say which
// characters break a line or take a column (a line separator, a combining mark); the coordinates of a
// position are then DEFINED by a fresh forward scan of the scanner under test (entry k: after k reads),
// and every history must agree with them. nil for all other contents: the independent rule decides.
var c11RealForward [][2]int

// c11Exotic: characters for which "takes one column, breaks no line" is not a given: the other line and
// paragraph separators and vertical controls, combining marks, format characters
func c11Exotic(r rune) bool {
	return r == 0x85 || r == 0x0b || r == 0x0c || unicode.In(r, unicode.Zl, unicode.Zp, unicode.Mn, unicode.Me, unicode.Mc, unicode.Cf)
}

func c11Run(c *fw.Ctx, content string, depthCap int) {
	runes := []rune(content)
	c11ContentLen = len(runes)
	c11RealForward = nil
	for _, r := range runes {
		if c11Exotic(r) {
			fs := rio.NewStringScanner(content)
			c11RealForward = [][2]int{{fs.Line(), fs.Column()}}
			for range runes {
				fs.Read()
				c11RealForward = append(c11RealForward, [2]int{fs.Line(), fs.Column()})
			}
			break
		}
	}
	defer func() { c11RealForward = nil }()
	type node struct {
		hist []c11Op
		p    int
	}
	// obsMode: which observers are called after every replayed operation (0 none, 1 peeks,
	// 2 line/column, 3 both) - observers are self-loops, so every mode must reach the same state
	obsMode := 0
	build := func(h []c11Op) *rio.StringScanner {
		s := rio.NewStringScanner(content)
		touch := func() {
			if obsMode&1 != 0 {
				s.PeekLine()
				s.PeekColumn()
				s.Peek()
			}
			if obsMode&2 != 0 {
				s.Line()
				s.Column()
			}
		}
		touch()
		for _, o := range h {
			c11Apply(s, o)
			touch()
		}
		return s
	}
	key := func(s *rio.StringScanner, h []c11Op) string {
		// the whole private state of the scanner, hashed BEFORE any observer is called on it:
		// two histories are merged only if every field agrees (identical fields = identical futures);
		// a key made of position/Line()/Column() alone would merge states that differ in
		// bookkeeping the observers hide
		// (no field is addressed by name: the walker hashes whatever private fields the struct has)
		return fmt.Sprintf("%x", snap.Hash(s))
	}
	// observe checks all state-local laws on the state reached by h (model cursor p).
	observe0 := func(h []c11Op, p int) {
		s := build(h)
		var pl0, pc0 int
		if obsMode == 1 {
			// peeks before line/column
			pl0, pc0 = s.PeekLine(), s.PeekColumn()
		}
		l, col := s.Line(), s.Column()
		if obsMode == 1 && (s.PeekLine() != pl0 || s.PeekColumn() != pc0) {
			c.Violation("peek-depends-on-observer-order", "content %q after [%s]: PeekLine/PeekColumn differ before and after Line()/Column() were called", content, c11HistStr(h))
		}
		el, ecol := forwardLC(runes, p)
		// cross-check the rule model with a fresh real forward scan
		fs := rio.NewStringScanner(content)
		for i := 0; i <= p; i++ {
			fs.Read()
		}
		if fs.Line() != el || fs.Column() != ecol {
			c.Violation("forward-scan-rule", "content %q: fresh forward scan to cursor %d reports (%d,%d), line-break rule gives (%d,%d)", content, p, fs.Line(), fs.Column(), el, ecol)
		}
		if l != el || col != ecol {
			sig := "linecol-path-dependent"
			if len(h) > 0 && h[len(h)-1] != opRead && h[len(h)-1] != opReset {
				sig = "linecol-after-unread"
			}
			c.Violation(sig, "content %q after [%s]: cursor %d reports (line %d, col %d); a fresh forward scan to that position reports (%d,%d)", content, c11HistStr(h), p, l, col, el, ecol)
		}
		// peeks
		var want rune = -1
		if p+1 < len(runes) {
			want = runes[p+1]
		}
		pk := s.Peek()
		pl, pc := s.PeekLine(), s.PeekColumn()
		if pk != want {
			c.Violation("peek-value", "content %q after [%s]: Peek()=%d want %d", content, c11HistStr(h), pk, want)
		}
		if s.Line() != l || s.Column() != col || s.Peek() != pk || s.PeekLine() != pl || s.PeekColumn() != pc {
			c.Violation("peek-moves", "content %q after [%s]: observers changed the state", content, c11HistStr(h))
		}
		if p+1 < len(runes) {
			nl, nc := forwardLC(runes, p+1)
			if pl != nl || pc != nc {
				c.Violation("peek-linecol", "content %q after [%s]: PeekLine/PeekColumn=(%d,%d) but the next read reports (%d,%d)", content, c11HistStr(h), pl, pc, nl, nc)
			}
			r := s.Read()
			if r != want || s.Line() != nl || s.Column() != nc {
				// reported on the transition as well; keep one signature
				c.Violation("read-after-peek", "content %q after [%s]: Read()=%d (%d,%d) want %d (%d,%d)", content, c11HistStr(h), r, s.Line(), s.Column(), want, nl, nc)
			}
		}
		c.Eval(1)
	}

	observe := func(h []c11Op, p int) {
		for obsMode = 0; obsMode < 4; obsMode++ {
			observe0(h, p)
		}
		obsMode = 0
	}
	seen := map[string]bool{}
	root := node{hist: nil, p: -1}
	s0 := build(nil)
	seen[key(s0, nil)] = true
	observe(nil, -1)
	frontier := []node{root}
	states, transitions := int64(1), int64(0)
	maxDepth := 0
	capped := false
	for len(frontier) > 0 {
		nd := frontier[0]
		frontier = frontier[1:]
		if len(nd.hist) >= depthCap {
			capped = true
			continue
		}
		if states > 60000 {
			// a scanner whose private state never repeats (say, a call counter) has no finite graph:
			// report the cap instead of unrolling histories forever
			capped = true
			c.Count("state_cap_hit_contents", 1)
			break
		}
		for op := opRead; op <= opUnreadZero; op++ {
			s := build(nd.hist)
			ret := c11Apply(s, op)
			np, wantRet := c11Model(runes, nd.p, op)
			transitions++
			h2 := append(append([]c11Op{}, nd.hist...), op)
			if op == opRead && ret != wantRet {
				sig := "read-value"
				c.Violation(sig, "content %q after [%s]: Read()=%d, cursor model says %d", content, c11HistStr(nd.hist), ret, wantRet)
			}
			k := key(s, h2)
			if !seen[k] {
				seen[k] = true
				states++
				if len(h2) > maxDepth {
					maxDepth = len(h2)
				}
				observe(h2, np)
				frontier = append(frontier, node{hist: h2, p: np})
			} else {
				// state already known: still check the transition's landing coordinates
				l, col := s.Line(), s.Column()
				el, ecol := forwardLC(runes, np)
				if l != el || col != ecol {
					c.Violation("linecol-after-unread", "content %q after [%s]: cursor %d reports (%d,%d) want (%d,%d)", content, c11HistStr(h2), np, l, col, el, ecol)
				}
			}
		}
	}
	c.Count("states", states)
	c.Count("transitions", transitions)
	if capped {
		c.Count("depth_capped_contents", 1)
		c.Count("capped", 1)
		c.Outcome("graph-capped")
	} else {
		c.Outcome(fmt.Sprintf("graph-closed-states=%d", states))
	}
	if strings.ContainsAny(content, "\r\n") && len(runes) >= 2 {
		c.Nontrivial()
	}
}

// ---- lines and line counts beyond 2^16: read to the end, step back over the break, read again

func c11LongLine(c *fw.Ctx, n int, br string, manyLines bool) {
	var content string
	if manyLines {
		content = strings.Repeat(br, n) + "yz"
	} else {
		content = strings.Repeat("x", n) + br + "yz"
	}
	runes := []rune(content)
	s := rio.NewStringScanner(content)
	p := -1
	check := func(what string) bool {
		el, ecol := forwardLC(runes, p)
		if s.Line() != el || s.Column() != ecol {
			c.Violation("linecol-on-long-content", "content of %d characters (%d x %q, then %q) %s: cursor %d reports (%d,%d), a forward scan reports (%d,%d)", len(runes), n, map[bool]string{true: br, false: "x"}[manyLines], map[bool]string{true: "yz", false: br + "yz"}[manyLines], what, p, s.Line(), s.Column(), el, ecol)
			return false
		}
		if p+1 < len(runes) {
			nl, nc := forwardLC(runes, p+1)
			if s.PeekLine() != nl || s.PeekColumn() != nc {
				c.Violation("peek-linecol-on-long-content", "content of %d characters %s: cursor %d peeks (%d,%d), the next read reports (%d,%d)", len(runes), what, p, s.PeekLine(), s.PeekColumn(), nl, nc)
				return false
			}
		}
		return true
	}
	for i := 0; i < len(runes); i++ {
		s.Read()
		p++
	}
	if !check("after reading everything") {
		return
	}
	back := len([]rune(br)) + 3
	for i := 0; i < back; i++ {
		s.Unread()
		p--
		if !check(fmt.Sprintf("after reading everything and %d x Unread()", i+1)) {
			return
		}
	}
	for i := 0; i < back; i++ {
		s.Read()
		p++
		if !check("after reading on again") {
			return
		}
	}
	s.UnreadMany(back + 2)
	p -= back + 2
	check("after UnreadMany over the break")
	c.Eval(1)
	c.Nontrivial()
}

func init() {
	fw.Register(&fw.Check{
		ID:    "C11",
		Level: "model_checking",
		Rule: "explicit-state BFS of the real StringScanner: one graph per content over {x,LF,CR}; operations {Read,Unread,UnreadMany(2),UnreadMany(3),UnreadMany(7),UnreadMany(len+3),Reset} and the observers {Peek+PeekLine+PeekColumn, Line+Column} and the multi-unreads by a non-positive count {0,-1,MinInt} as operations of their own (self-loops on a scanner without hidden state); " +
			"state key = hash of ALL private fields of the object taken before any observer runs; successors built by replaying the shortest history on a fresh scanner, in four modes that call the observers (peeks / line+column / both / none) after every replayed operation; " +
			"plus one character of every Unicode general category (first and last of each) and every boundary character in four short contexts, where the coordinates of a position are defined by a fresh forward scan of the scanner under test and every history must agree with them; plus patterns of <=3 characters repeated to lengths up to 66; plus lines of 65535..65537 characters and 65535..65537 line breaks of each kind, read to the end, stepped back over the break and read again; every state is compared with the cursor model, the independent line/column rule and a fresh forward scan; non-trivial = content with a line break and length>=2",
		Assume: []string{"peek law asserted only where a next character exists (end-of-input slot pinned by C12)"},
		Spaces: func(tier string) []fw.Space {
			maxLen, depth := 4, 8
			if tier == "thorough" {
				maxLen, depth = 7, 12
			}
			n := countStrings(len(c11Alphabet), maxLen)
			return []fw.Space{{
				Name: "contents",
				N:    n,
				Run: func(c *fw.Ctx, i int64) {
					c11Run(c, c11Content(i, maxLen), depth)
				},
				Repr: func(i int64) string { return fmt.Sprintf("content=%q", c11Content(i, maxLen)) },
			}, {
				Name: "long-lines",
				N:    int64(len(hugeCounts) * 4 * 2),
				Run: func(c *fw.Ctx, i int64) {
					c11LongLine(c, hugeCounts[int(i)/8], []string{"\n", "\r", "\r\n", "\n\r"}[int(i)%8/2], i%2 == 1)
				},
				Repr: func(i int64) string {
					return fmt.Sprintf("%d x (x | %q), then the rest; many lines: %v", hugeCounts[int(i)/8], []string{"\n", "\r", "\r\n", "\n\r"}[int(i)%8/2], i%2 == 1)
				},
				Timeout: 300e9,
			}, {
				Name: "character-classes",
				N:    int64(len(c11ClassChars()) * 4),
				Run: func(c *fw.Ctx, i int64) {
					c11Run(c, c11ClassContent(i), depth)
				},
				Repr: func(i int64) string { return fmt.Sprintf("content=%q", c11ClassContent(i)) },
			}, {
				Name: "pumped-contents",
				N:    (countStrings(3, 3) - 1) * 5,
				Run: func(c *fw.Ctx, i int64) {
					n := []int{3, 5, 9, 17, 22}[i%5]
					content := pumped(stringByIndex(c11Alphabet, 1+i/5), n)
					c11Run(c, content, len([]rune(content))+6)
				},
				Repr: func(i int64) string {
					return fmt.Sprintf("content=%q x %d", stringByIndex(c11Alphabet, 1+i/5), []int{3, 5, 9, 17, 22}[i%5])
				},
				Timeout: 300e9,
			}}
		},
		Bounds: func(tier string) string {
			if tier == "thorough" {
				return "contents of length<=7 over {x,LF,CR}; BFS depth cap 12 (graphs close earlier on a correct scanner)"
			}
			return "contents of length<=4 over {x,LF,CR}; BFS depth cap 8"
		},
	})
}
