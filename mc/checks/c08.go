package checks

import (
	"fmt"
	"math"
	"strings"
	"time"

	"verifmc/fw"

	"github.com/pip-services3-gox/pip-services3-expressions-gox/calculator"
	"github.com/pip-services3-gox/pip-services3-expressions-gox/calculator/functions"
	"github.com/pip-services3-gox/pip-services3-expressions-gox/calculator/variables"
	"github.com/pip-services3-gox/pip-services3-expressions-gox/variants"
)

// C08 — built-in functions compute what their names denote.

var c08Names = []string{"Ticks", "TimeSpan", "Now", "Date", "DayOfWeek", "Min", "Max", "Sum", "If", "Choose", "E", "Pi", "Rnd", "Random", "Abs",
	"Acos", "Asin", "Atan", "Exp", "Log", "Ln", "Log10", "Ceil", "Ceiling", "Floor", "Round", "Trunc", "Truncate", "Cos", "Sin", "Tan", "Sqr", "Sqrt",
	"Empty", "Null", "Contains", "Array"}

var c08Math = map[string]func(float64) float64{
	"Acos": math.Acos, "Asin": math.Asin, "Atan": math.Atan, "Exp": math.Exp, "Log": math.Log, "Ln": math.Log, "Log10": math.Log10,
	"Ceil": math.Ceil, "Ceiling": math.Ceil, "Floor": math.Floor, "Cos": math.Cos, "Sin": math.Sin, "Tan": math.Tan, "Sqrt": math.Sqrt,
}

func c08ArgPool() []poolVal {
	pick := []string{"Null", "Integer(0)", "Integer(1)", "Integer(-1)", "Integer(3)", "Long(9007199254740993)", "Long(7)", "Float(2.5)", "Double(-1.5)", "Double(0.5)",
		"String(\"abc\")", "String(\"12\")", "Boolean(true)", "DateTime(2024-01-01T00:30:00+05:00)", "TimeSpan(1h0m0s)", "Array[1,'a',null]"}
	out := []poolVal{}
	for _, l := range pick {
		found := false
		for _, p := range poolThorough {
			if p.label == l {
				out = append(out, p)
				found = true
			}
		}
		if !found {
			panic("c08 pool entry missing: " + l)
		}
	}
	return out
}

func c08LongPool() []poolVal {
	return []poolVal{
		{"Integer(1)", func() *variants.Variant { return variants.VariantFromInteger(1) }},
		{"String(\"a\")", func() *variants.Variant { return variants.VariantFromString("a") }},
		{"Null", func() *variants.Variant { return variants.EmptyVariant() }},
	}
}

// c08Expect describes the reference outcome.
type c08Expect struct {
	kind  string // "error" | "open" | "check"
	check func(r *variants.Variant) string
	note  string
}

func c08Err(note string) c08Expect { return c08Expect{kind: "error", note: note} }

var c08Open = c08Expect{kind: "open"}

func c08Val(t variants.VariantType, v interface{}) c08Expect {
	return c08Expect{kind: "check", check: func(r *variants.Variant) string {
		if r.Type() != t || !payloadEq(r.AsObject(), v) {
			return fmt.Sprintf("= %s, expected %s:%#v", variantStr(r), tn(t), v)
		}
		return ""
	}}
}

func c08Same(args []*variants.Variant, idx int) c08Expect {
	return c08Expect{kind: "check", check: func(r *variants.Variant) string {
		w := args[idx]
		if r != w && !(r.Type() == w.Type() && payloadEq(r.AsObject(), w.AsObject())) {
			return fmt.Sprintf("= %s, expected argument %d = %s", variantStr(r), idx, variantStr(w))
		}
		return ""
	}}
}

func c08Arity(name string, n int) bool {
	switch name {
	case "Ticks", "Now", "E", "Pi", "Rnd", "Random", "Null":
		return n == 0
	case "Contains":
		return n == 2
	case "If":
		return n == 3
	case "Min", "Max", "Sum":
		return n >= 2
	case "Choose":
		return n >= 3
	case "TimeSpan":
		return n == 1 || n == 3 || n == 4 || n == 5
	case "Date":
		return n >= 1 && n <= 7
	case "Array":
		return true
	}
	return n == 1
}

func c08Reference(name string, safe bool, args []*variants.Variant, before time.Time) c08Expect {
	n := len(args)
	if !c08Arity(name, n) {
		return c08Err("wrong argument count")
	}
	conv := func(i int, t variants.VariantType) (*variants.Variant, string) {
		r, err, ok := convertReal(safe, args[i], t)
		if !ok {
			return nil, "open"
		}
		if err != nil {
			return nil, "error"
		}
		return r, ""
	}
	if f, ok := c08Math[name]; ok {
		x, st := conv(0, variants.Double)
		if st == "open" {
			return c08Open
		} else if st == "error" {
			return c08Err("argument not convertible to Double")
		}
		return c08Val(variants.Double, f(x.AsDouble()))
	}
	switch name {
	case "Ticks":
		return c08Expect{kind: "check", check: func(r *variants.Variant) string {
			after := time.Now()
			if r.Type() != variants.Long || r.AsLong() < before.Unix() || r.AsLong() > after.Unix() {
				return fmt.Sprintf("= %s, not a Long within the call interval [%d,%d]", variantStr(r), before.Unix(), after.Unix())
			}
			return ""
		}}
	case "Now":
		return c08Expect{kind: "check", check: func(r *variants.Variant) string {
			after := time.Now()
			if r.Type() != variants.DateTime || r.AsDateTime().Before(before) || r.AsDateTime().After(after) {
				return "= " + variantStr(r) + ", not a DateTime within the call interval"
			}
			return ""
		}}
	case "E", "Pi":
		want := math.E
		if name == "Pi" {
			want = math.Pi
		}
		return c08Expect{kind: "check", check: func(r *variants.Variant) string {
			f, ok := numericAsFloat(r)
			if !ok || (r.Type() != variants.Float && r.Type() != variants.Double) || math.Abs(f-want) > 1e-6 {
				return "= " + variantStr(r) + fmt.Sprintf(", expected %v as Float/Double", want)
			}
			return ""
		}}
	case "Rnd", "Random":
		return c08Expect{kind: "check", check: func(r *variants.Variant) string {
			f, ok := numericAsFloat(r)
			if !ok || (r.Type() != variants.Float && r.Type() != variants.Double) || f < 0 || f >= 1 {
				return "= " + variantStr(r) + ", expected a Float/Double in [0,1)"
			}
			return ""
		}}
	case "Null":
		return c08Val(variants.Null, nil)
	case "Round":
		x, st := conv(0, variants.Double)
		if st == "open" {
			return c08Open
		} else if st == "error" {
			return c08Err("argument not convertible")
		}
		return c08Expect{kind: "check", check: func(r *variants.Variant) string {
			if r.Type() != variants.Double || !(payloadEq(r.AsDouble(), math.Round(x.AsDouble())) || payloadEq(r.AsDouble(), math.RoundToEven(x.AsDouble()))) {
				return fmt.Sprintf("= %s, expected Double %v", variantStr(r), math.Round(x.AsDouble()))
			}
			return ""
		}}
	case "Trunc", "Truncate":
		x, st := conv(0, variants.Double)
		if st == "open" {
			return c08Open
		} else if st == "error" {
			return c08Err("argument not convertible")
		}
		if !finiteInRange(x.AsDouble()) {
			return c08Open
		}
		return c08Val(variants.Long, int64(math.Trunc(x.AsDouble())))
	case "Sqr":
		x, st := conv(0, variants.Double)
		if st == "open" {
			return c08Open
		} else if st == "error" {
			return c08Err("argument not convertible")
		}
		return c08Expect{kind: "check", check: func(r *variants.Variant) string {
			v := x.AsDouble()
			if r.Type() != variants.Double || !(payloadEq(r.AsDouble(), math.Sqrt(v)) || payloadEq(r.AsDouble(), v*v)) {
				return "= " + variantStr(r) + ", expected Double sqrt(x) (or x*x)"
			}
			return ""
		}}
	case "Abs":
		a := args[0]
		switch a.Type() {
		case variants.Integer:
			x := a.AsInteger()
			if x < 0 {
				x = -x
			}
			return c08Val(variants.Integer, x)
		case variants.Long:
			x := a.AsLong()
			if x < 0 {
				x = -x
			}
			return c08Val(variants.Long, x)
		case variants.Float:
			return c08Val(variants.Float, float32(math.Abs(float64(a.AsFloat()))))
		case variants.Double:
			return c08Val(variants.Double, math.Abs(a.AsDouble()))
		}
		x, st := conv(0, variants.Double)
		if st == "open" {
			return c08Open
		} else if st == "error" {
			return c08Err("argument not convertible")
		}
		return c08Val(variants.Double, math.Abs(x.AsDouble()))
	case "DayOfWeek":
		x, st := conv(0, variants.DateTime)
		if st == "open" {
			return c08Open
		} else if st == "error" {
			return c08Err("argument not convertible to DateTime")
		}
		return c08Val(variants.Integer, int(x.AsDateTime().Weekday()))
	case "Empty":
		a := args[0]
		if a.Type() == variants.Null {
			return c08Val(variants.Boolean, true)
		}
		nonEmpty := true
		switch a.Type() {
		case variants.String:
			nonEmpty = a.AsString() != ""
		case variants.Array:
			nonEmpty = a.Length() > 0
		}
		if nonEmpty {
			return c08Val(variants.Boolean, false)
		}
		return c08Expect{kind: "check", check: func(r *variants.Variant) string {
			if r.Type() != variants.Boolean {
				return "= " + variantStr(r) + ", expected a Boolean"
			}
			return ""
		}}
	case "Contains":
		if args[0].Type() == variants.Null || args[1].Type() == variants.Null {
			return c08Open
		}
		s, st1 := conv(0, variants.String)
		sub, st2 := conv(1, variants.String)
		if st1 == "open" || st2 == "open" {
			return c08Open
		}
		if st1 == "error" || st2 == "error" {
			return c08Err("argument not convertible to String")
		}
		return c08Val(variants.Boolean, strings.Contains(s.AsString(), sub.AsString()))
	case "If":
		cnd, st := conv(0, variants.Boolean)
		if st == "open" {
			return c08Open
		} else if st == "error" {
			return c08Err("condition not convertible to Boolean")
		}
		if cnd.AsBoolean() {
			return c08Same(args, 1)
		}
		return c08Same(args, 2)
	case "Choose":
		idx, st := conv(0, variants.Integer)
		if st == "open" {
			return c08Open
		} else if st == "error" {
			return c08Err("selector not convertible to Integer")
		}
		i := idx.AsInteger()
		if i < 1 || i > n-1 {
			return c08Err("selector outside 1..n")
		}
		return c08Same(args, i)
	case "Array":
		return c08Expect{kind: "check", check: func(r *variants.Variant) string {
			if r.Type() != variants.Array || r.Length() != n {
				return "= " + variantStr(r) + fmt.Sprintf(", expected an Array of the %d arguments", n)
			}
			for i := range args {
				// (the argument itself or an equal value: whether operands reach a function as copies is open)
				if e := r.GetByIndex(i); e != args[i] && !(e != nil && e.Type() == args[i].Type() && payloadEq(e.AsObject(), args[i].AsObject())) {
					return fmt.Sprintf("element %d is not argument %d", i, i)
				}
			}
			return ""
		}}
	case "Sum":
		acc := args[0]
		for i := 1; i < n; i++ {
			ref := refBinary("Add", safe, acc, args[i])
			if ref.kind == "error" {
				return c08Err("'+' undefined for the arguments")
			}
			if ref.kind != "value" || ref.pow || ref.same != nil {
				return c08Open
			}
			nv := variants.EmptyVariant()
			nv.SetAsObject(ref.val)
			if ref.typ == variants.Null {
				nv = variants.EmptyVariant()
			}
			if nv.Type() != ref.typ {
				return c08Open
			}
			acc = nv
		}
		return c08Val(acc.Type(), acc.AsObject())
	case "Min", "Max":
		// homogeneous Integer / Long / Double / String lists: the true extremum, which is one of the arguments
		t := args[0].Type()
		homog := t == variants.Integer || t == variants.Long || t == variants.Double || t == variants.String || t == variants.Float
		for _, a := range args {
			if a.Type() != t {
				homog = false
			}
			if f, ok := numericAsFloat(a); ok && math.IsNaN(f) {
				homog = false
			}
		}
		oneOf := func(r *variants.Variant) bool {
			for _, a := range args {
				if r == a || (r.Type() == a.Type() && payloadEq(r.AsObject(), a.AsObject())) {
					return true
				}
			}
			return false
		}
		if !homog {
			// mixed lists: when every argument is a non-NaN number the result must be EITHER what the
			// documented comparison gives when folded over the arguments in written order (current
			// result as first operand) OR an argument that is numerically the true extremum
			allNum := true
			for _, a := range args {
				f, ok := numericAsFloat(a)
				if !ok || math.IsNaN(f) {
					allNum = false
				}
			}
			if allNum {
				op := "More"
				if name == "Max" {
					op = "Less"
				}
				fold, foldState := 0, "value"
				for i := 1; i < n && foldState == "value"; i++ {
					ref := refBinary(op, safe, args[fold], args[i])
					switch {
					case ref.kind == "error":
						foldState = "error"
					case ref.kind != "value":
						foldState = "open"
					case ref.val == true:
						fold = i
					}
				}
				ext := 0
				for i := 1; i < n; i++ {
					fi, _ := numericAsFloat(args[i])
					fe, _ := numericAsFloat(args[ext])
					if (name == "Min" && fi < fe) || (name == "Max" && fi > fe) {
						ext = i
					}
				}
				if foldState == "open" {
					return c08Open
				}
				return c08Expect{kind: map[string]string{"value": "check", "error": "error-or-check"}[foldState], note: "comparison not defined for the argument types", check: func(r *variants.Variant) string {
					fr, ok := numericAsFloat(r)
					fe, _ := numericAsFloat(args[ext])
					if ok && oneOf(r) && fr == fe {
						return ""
					}
					if foldState == "value" && r.Type() == args[fold].Type() && payloadEq(r.AsObject(), args[fold].AsObject()) {
						return ""
					}
					return "= " + variantStr(r) + ", expected " + variantStr(args[ext]) + " (true extremum) or " + variantStr(args[fold]) + " (comparisons folded in written order)"
				}}
			}
			return c08Expect{kind: "open-or-check", check: func(r *variants.Variant) string {
				if !oneOf(r) {
					return "= " + variantStr(r) + ", which is not one of the arguments"
				}
				return ""
			}}
		}
		best := 0
		for i := 1; i < n; i++ {
			op := "Less"
			if name == "Max" {
				op = "More"
			}
			ref := refBinary(op, false, args[i], args[best])
			if ref.kind == "value" && ref.val == true {
				best = i
			}
		}
		return c08Expect{kind: "check", check: func(r *variants.Variant) string {
			if !(r.Type() == t && payloadEq(r.AsObject(), args[best].AsObject())) {
				return "= " + variantStr(r) + ", the extremum is " + variantStr(args[best])
			}
			return ""
		}}
	case "TimeSpan":
		vals := make([]int64, 5)
		for i := 0; i < n; i++ {
			x, st := conv(i, variants.Long)
			if st == "open" {
				return c08Open
			} else if st == "error" {
				return c08Err("argument not convertible to Long")
			}
			vals[i] = x.AsLong()
			if vals[i] > 1e6 || vals[i] < -1e6 {
				return c08Open // overflow territory
			}
		}
		if n == 1 {
			return c08Val(variants.TimeSpan, time.Duration(vals[0])*time.Millisecond)
		}
		ms := (((vals[0]*24+vals[1])*60+vals[2])*60+vals[3])*1000 + vals[4]
		return c08Val(variants.TimeSpan, time.Duration(ms)*time.Millisecond)
	case "Date":
		if n == 1 {
			x, st := conv(0, variants.Long)
			if st == "open" {
				return c08Open
			} else if st == "error" {
				return c08Err("argument not convertible to Long")
			}
			if x.AsLong() > 1<<40 || x.AsLong() < -(1<<40) {
				return c08Open
			}
			return c08Val(variants.DateTime, time.Unix(x.AsLong(), 0))
		}
		f := []int{0, 1, 1, 0, 0, 0, 0}
		for i := 0; i < n; i++ {
			x, st := conv(i, variants.Integer)
			if st == "open" {
				return c08Open
			} else if st == "error" {
				return c08Err("argument not convertible to Integer")
			}
			f[i] = x.AsInteger()
			if f[i] > 100000 || f[i] < -100000 {
				return c08Open
			}
		}
		return c08Expect{kind: "check", check: func(r *variants.Variant) string {
			if r.Type() != variants.DateTime {
				return "= " + variantStr(r) + ", expected a DateTime"
			}
			w1 := time.Date(f[0], time.Month(f[1]), f[2], f[3], f[4], f[5], f[6], time.Local)
			w2 := time.Date(f[0], time.Month(f[1]), f[2], f[3], f[4], f[5], f[6]*1000000, time.Local)
			if !r.AsDateTime().Equal(w1) && !r.AsDateTime().Equal(w2) {
				return "= " + variantStr(r) + ", expected " + w1.Format(time.RFC3339Nano)
			}
			return ""
		}}
	}
	return c08Open
}

func c08Judge(exp c08Expect, r *variants.Variant, err error, pv interface{}) string {
	if pv != nil {
		return "panics: " + panicShort(pv)
	}
	if r == nil && err == nil {
		return "returns neither a result nor an error"
	}
	if r != nil && err != nil {
		return "returns both a result and an error"
	}
	switch exp.kind {
	case "open":
		return ""
	case "error":
		if err == nil {
			return "returns " + variantStr(r) + " (" + exp.note + ": error expected)"
		}
		return ""
	case "open-or-check", "error-or-check":
		if err != nil {
			return ""
		}
		return exp.check(r)
	}
	if err != nil {
		return fmt.Sprintf("fails with %v", err)
	}
	return exp.check(r)
}

func c08Args(pool []poolVal, seq []int) ([]*variants.Variant, string) {
	args := []*variants.Variant{}
	l := []string{}
	for _, k := range seq {
		args = append(args, pool[k].mk())
		l = append(l, pool[k].label)
	}
	return args, strings.Join(l, ", ")
}

func c08Direct(c *fw.Ctx, pool []poolVal, seq []int, fi int, safe bool) {
	name := c08Names[fi]
	args, label := c08Args(pool, seq)
	snap := []string{}
	for _, a := range args {
		snap = append(snap, variantStr(a))
	}
	before := time.Now()
	exp := c08Reference(name, safe, args, before)
	coll := functions.NewDefaultFunctionCollection()
	f := coll.FindByName(name)
	if f == nil {
		c.Violation("function-missing:"+name, "FindByName(%q) = nil", name)
		return
	}
	var r *variants.Variant
	var err error
	pv := fw.Try(func() { r, err = f.Calculate(args, opsManager(safe)) })
	c.Eval(1)
	desc := fmt.Sprintf("%s %s(%s)", mgrName(safe), name, label)
	if msg := c08Judge(exp, r, err, pv); msg != "" {
		sig := name + ":wrong-result"
		switch {
		case strings.HasPrefix(msg, "panics"):
			sig = name + ":panic-escapes"
		case strings.HasPrefix(msg, "returns neither"):
			sig = name + ":nil-result-without-error"
		case exp.kind == "error":
			sig = name + ":no-error:" + exp.note
		}
		c.Violation(sig, "%s %s", desc, msg)
	}
	for i, a := range args {
		if variantStr(a) != snap[i] {
			c.Violation("function-mutates-argument:"+name, "%s changed argument %d", desc, i)
		}
	}
	// the caller owns the result and overwrites it (unless it is one of the arguments, or an element of
	// one, handed through): nothing the library keeps - the package-level variants.Empty, the value a
	// later call of the same function returns - may change with it
	if r != nil && pv == nil {
		own := true
		for _, a := range args {
			if a == r {
				own = false
			}
			if a != nil && a.Type() == variants.Array {
				for _, e := range a.AsArray() {
					if e == r {
						own = false
					}
				}
			}
		}
		if own {
			fw.Try(func() { r.SetAsString("overwritten-by-the-caller") })
			if variants.Empty == nil || variants.Empty.Type() != variants.Null {
				c.Violation("result-is-the-shared-empty-variant:"+name, "%s returned the package-level variants.Empty: writing into the result changed it to %s", desc, variantStr(variants.Empty))
				variants.Empty = variants.EmptyVariant()
			} else if exp.kind == "value" || exp.kind == "check" {
				var r2 *variants.Variant
				var err2 error
				args2, _ := c08Args(pool, seq)
				pv2 := fw.Try(func() { r2, err2 = f.Calculate(args2, opsManager(safe)) })
				if msg := c08Judge(c08Reference(name, safe, args2, time.Now()), r2, err2, pv2); msg != "" && name != "Rnd" && name != "Random" && name != "Now" && name != "Ticks" {
					c.Violation("result-not-isolated:"+name, "%s called again after the caller overwrote the first result: %s", desc, msg)
				}
			}
		}
	}
	if exp.kind != "open" {
		c.Nontrivial()
	}
	c.Outcome(name + ":" + exp.kind)
}

// through expressions: Name(x0,...,xk) evaluated by the calculator must agree with the direct call
func c08ViaExpr(c *fw.Ctx, pool []poolVal, seq []int, fi int, safe bool) {
	name := c08Names[fi]
	args, label := c08Args(pool, seq)
	vars := variables.NewVariableCollection()
	names := []string{}
	for i, a := range args {
		vn := fmt.Sprintf("x%d", i)
		vars.Add(variables.NewVariable(vn, a))
		names = append(names, vn)
	}
	fn := name
	if strings.EqualFold(name, "Null") {
		fn = "\"Null\""
	}
	// alternate spellings of the function name
	switch len(seq) % 3 {
	case 1:
		fn = strings.ToUpper(fn)
	case 2:
		fn = strings.ToLower(fn)
	}
	text := fn + "(" + strings.Join(names, ",") + ")"
	before := time.Now()
	exp := c08Reference(name, safe, args, before)
	calc := calculator.NewExpressionCalculator()
	calc.SetVariantOperations(opsManager(safe))
	var r *variants.Variant
	var err error
	var setErr error
	pv := fw.Try(func() {
		setErr = calc.SetExpression(text)
		if setErr == nil {
			r, err = calc.EvaluateUsingVariables(vars)
		}
	})
	c.Eval(1)
	desc := fmt.Sprintf("%s expression %s with (%s)", mgrName(safe), text, label)
	if setErr != nil {
		c.Violation("call-expression-rejected:"+name, "%s: SetExpression fails: %v", desc, setErr)
		return
	}
	if msg := c08Judge(exp, r, err, pv); msg != "" {
		sig := name + ":via-expression:wrong-result"
		switch {
		case strings.HasPrefix(msg, "panics"):
			sig = name + ":via-expression:panic-escapes"
		case strings.HasPrefix(msg, "returns neither"):
			sig = name + ":via-expression:nil-result-without-error"
		case exp.kind == "error":
			sig = name + ":via-expression:no-error:" + exp.note
		}
		c.Violation(sig, "%s %s", desc, msg)
	}
	if exp.kind != "open" {
		c.Nontrivial()
	}
}

func c08Spelling(c *fw.Ctx, i int64) {
	name := c08Names[int(i)/4]
	sp := name
	switch i % 4 {
	case 1:
		sp = strings.ToLower(name)
	case 2:
		sp = strings.ToUpper(name)
	case 3:
		b := []byte(name)
		for k := range b {
			if k%2 == 0 {
				b[k] = byte(strings.ToUpper(string(b[k]))[0])
			} else {
				b[k] = byte(strings.ToLower(string(b[k]))[0])
			}
		}
		sp = string(b)
	}
	coll := functions.NewDefaultFunctionCollection()
	f, g := coll.FindByName(name), coll.FindByName(sp)
	c.Eval(1)
	c.Nontrivial()
	if f == nil || g == nil || f != g {
		c.Violation("function-lookup-case:"+name, "FindByName(%q) and FindByName(%q) differ (%v, %v)", name, sp, f != nil, g != nil)
	}
	if coll.Length() != len(c08Names) {
		c.Violation("function-table-size", "default collection has %d functions, expected %d", coll.Length(), len(c08Names))
	}
}

// ---- histories on one calculator: a later-registered namesake of a built-in, removal of an earlier
// function, setting and evaluating an expression that calls the name: the first registration wins every time

var c08HistCalls = []struct{ name, expr, want string }{
	{"Array", "Array(7,8,9)[1]", variantStr(variants.VariantFromInteger(8))},
	{"Max", "Max(2,9,4)", variantStr(variants.VariantFromInteger(9))},
	{"Abs", "Abs(-6) + 1", variantStr(variants.VariantFromInteger(7))},
}

var c08HistOps = []string{"add a namesake", "Remove(0)", "Evaluate", "SetExpression", "RemoveByName(Pi)"}

func c08History(c *fw.Ctx, which int, h []int) {
	call := c08HistCalls[which]
	calc := calculator.NewExpressionCalculator()
	set := false
	hist := []string{}
	for _, op := range h {
		hist = append(hist, c08HistOps[op])
		switch op {
		case 0:
			calc.DefaultFunctions().Add(functions.NewDelegatedFunction(call.name, func(p []*variants.Variant, o variants.IVariantOperations) (*variants.Variant, error) {
				return variants.VariantFromInteger(3), nil
			}))
		case 1:
			if calc.DefaultFunctions().Length() > 0 && calc.DefaultFunctions().Get(0).Name() != call.name {
				calc.DefaultFunctions().Remove(0)
			}
		case 4:
			calc.DefaultFunctions().RemoveByName("Pi")
		case 3:
			if err := calc.SetExpression(call.expr); err != nil {
				c.Violation("history:SetExpression-fails", "after [%s]: SetExpression(%q) fails: %v", strings.Join(hist, "; "), call.expr, err)
				return
			}
			set = true
		case 2:
			if !set {
				continue
			}
			var r *variants.Variant
			var err error
			pv := fw.Try(func() { r, err = calc.Evaluate() })
			c.Eval(1)
			if pv != nil || err != nil || variantStr(r) != call.want {
				c.Violation("namesake-wins-after-history:"+call.name, "one calculator, [%s]: %q = %s (error %v, panic %v); the first registered %s gives %s", strings.Join(hist, "; "), call.expr, variantStr(r), err, pv, call.name, call.want)
				return
			}
		}
	}
	c.Nontrivial()
}

func init() {
	fw.Register(&fw.Check{
		ID:    "C08",
		Level: "model_checking",
		Rule: "all 37 registered functions x every argument list of length 0..3 over a 16-value pool (every variant type) and of length 4..8 over {1,'a',null}, both managers, called directly through FindByName(name).Calculate and (lists of length 0..2 and the arity sweep) through expressions Name(x0,..) in three letter cases; every name in 4 spellings for lookup; every history of <=5 steps out of {register a namesake, Remove(0), RemoveByName(Pi), SetExpression, Evaluate} on one calculator for three built-ins (the first registration wins every time); Rnd/Random with the process-wide random source scripted to every triple of 15 boundary draws; " +
			"oracle: reference function table (arity, fixed result type, value via math.*/time.* on the manager-converted argument, selection functions return the selected argument, clock/random inside their intervals), exactly one of result/error, no escaping panic, arguments unchanged; non-trivial = calls whose outcome the table defines",
		Assume: []string{"argument conversion uses the manager under test (C07)", "TZ=UTC", "Sqr may be square or square root; Date's 7th field may be milli- or nanoseconds; Empty is only pinned for Null and non-empty values; Min/Max on all-numeric mixed-type lists: the numerically true extremum or the result of folding the documented comparison in written order; on other mixed or Null-containing lists: an error or one of the arguments"},
		Spaces: func(tier string) []fw.Space {
			pool := c08ArgPool()
			lp := c08LongPool()
			nf := int64(len(c08Names))
			short := countStrings(len(pool), 3)
			skipL, nL := countSeqRange(len(lp), 4, 8)
			if tier == "quick" {
				skipL, nL = countSeqRange(len(lp), 4, 6)
			}
			viaN := countStrings(len(pool), 2)
			nd := int64(len(randomDraws))
			return []fw.Space{
				{Name: "random-source-boundaries", N: nd * nd * nd * 2, Run: func(c *fw.Ctx, i int64) {
					safe := i%2 == 1
					j := i / 2
					script := []int64{randomDraws[j%nd], randomDraws[j/nd%nd], randomDraws[j/nd/nd]}
					fc := functions.NewDefaultFunctionCollection()
					used := withScriptedRandom(script, func() {
						for k, name := range []string{"Rnd", "Random", "rnd", "RANDOM"} {
							f := fc.FindByName(name)
							if f == nil {
								c.Violation("function-missing:"+name, "default function %s not found", name)
								return
							}
							var r *variants.Variant
							var err error
							pv := fw.Try(func() { r, err = f.Calculate([]*variants.Variant{}, opsManager(safe)) })
							c.Eval(1)
							if pv != nil || err != nil || r == nil {
								c.Violation("Rnd:fails", "%s() call %d with the generator answering %v: result %s error %v panic %v", name, k+1, script, variantStr(r), err, pv)
								return
							}
							if msg := c08Reference("Rnd", safe, nil, time.Now()).check(r); msg != "" {
								c.Violation("Rnd:out-of-range", "%s() call %d with the process-wide generator answering the 63-bit draws %v (then mid-range draws) %s", name, k+1, script, msg)
								return
							}
						}
					})
					if used == 0 {
						c.Outcome("random-source-seam-unused")
					} else {
						c.Outcome("random-source-scripted")
						c.Nontrivial()
					}
				}, Repr: func(i int64) string {
					j := i / 2
					return fmt.Sprintf("Rnd()/Random() x4 with math/rand's global generator scripted to draw %v", []int64{randomDraws[j%nd], randomDraws[j/nd%nd], randomDraws[j/nd/nd]})
				}},
				{Name: "namesake-histories", N: int64(len(c08HistCalls)) * countStrings(len(c08HistOps), 5), Run: func(c *fw.Ctx, i int64) {
					nh := countStrings(len(c08HistOps), 5)
					c08History(c, int(i/nh), seqByIndex(len(c08HistOps), i%nh))
				}, Repr: func(i int64) string {
					nh := countStrings(len(c08HistOps), 5)
					p := []string{}
					for _, k := range seqByIndex(len(c08HistOps), i%nh) {
						p = append(p, c08HistOps[k])
					}
					return fmt.Sprintf("one calculator, expression %q: %s", c08HistCalls[i/nh].expr, strings.Join(p, "; "))
				}},
				{Name: "spelling", N: nf * 4, Run: c08Spelling, Repr: func(i int64) string { return fmt.Sprintf("lookup of %s in spelling %d", c08Names[int(i)/4], i%4) }},
				{Name: "direct-short", N: short * nf * 2, Run: func(c *fw.Ctx, i int64) {
					c08Direct(c, pool, seqByIndex(len(pool), i/(nf*2)), int(i/2%nf), i%2 == 1)
				}, Repr: func(i int64) string {
					_, l := c08Args(pool, seqByIndex(len(pool), i/(nf*2)))
					return fmt.Sprintf("%s %s(%s)", mgrName(i%2 == 1), c08Names[int(i/2%nf)], l)
				}},
				{Name: "direct-long", N: nL * nf * 2, Run: func(c *fw.Ctx, i int64) {
					c08Direct(c, lp, seqByIndex(len(lp), skipL+i/(nf*2)), int(i/2%nf), i%2 == 1)
				}, Repr: func(i int64) string {
					_, l := c08Args(lp, seqByIndex(len(lp), skipL+i/(nf*2)))
					return fmt.Sprintf("%s %s(%s)", mgrName(i%2 == 1), c08Names[int(i/2%nf)], l)
				}},
				{Name: "via-expression-short", N: viaN * nf * 2, Run: func(c *fw.Ctx, i int64) {
					c08ViaExpr(c, pool, seqByIndex(len(pool), i/(nf*2)), int(i/2%nf), i%2 == 1)
				}, Repr: func(i int64) string {
					_, l := c08Args(pool, seqByIndex(len(pool), i/(nf*2)))
					return fmt.Sprintf("%s expression %s(...) with (%s)", mgrName(i%2 == 1), c08Names[int(i/2%nf)], l)
				}},
				{Name: "via-expression-arity", N: 9 * nf * 2, Run: func(c *fw.Ctx, i int64) {
					n := int(i / (nf * 2))
					seq := make([]int, n)
					for k := range seq {
						seq[k] = k % 2 // 1, 'a', 1, ...
					}
					c08ViaExpr(c, lp, seq, int(i/2%nf), i%2 == 1)
				}, Repr: func(i int64) string {
					return fmt.Sprintf("%s expression %s with %d arguments", mgrName(i%2 == 1), c08Names[int(i/2%nf)], i/(nf*2))
				}},
			}
		},
		Bounds: func(tier string) string {
			if tier == "thorough" {
				return "37 functions x all lists len<=3 over 16 values + len 4..8 over 3 values x 2 managers; expressions for len<=2 and arities 0..8"
			}
			return "37 functions x all lists len<=3 over 16 values + len 4..6 over 3 values x 2 managers; expressions for len<=2 and arities 0..8"
		},
	})
}
