package checks

import (
	"fmt"
	"strings"
	"sync"

	"verifmc/fw"

	"github.com/pip-services3-gox/pip-services3-expressions-gox/calculator"
	"github.com/pip-services3-gox/pip-services3-expressions-gox/calculator/functions"
	"github.com/pip-services3-gox/pip-services3-expressions-gox/calculator/variables"
	"github.com/pip-services3-gox/pip-services3-expressions-gox/variants"
)

// C01 — expression value follows precedence, associativity and operand order.

var c01TreeCache = map[string][]*enode{}
var c01Mu sync.Mutex

func c01Leaf(i int) *enode { return eVar([]string{"a", "b", "c", "d"}[i]) }

func c01Decorate(leaf *enode, d int) *enode {
	switch d {
	case 1:
		return eNeg(leaf)
	case 2:
		return eIdx(leaf, eConst("1", 1))
	case 3:
		return eCall("F", leaf)
	case 4:
		return eIdx(eNeg(leaf), eConst("1", 1)) // -a[1] == (-a)[1]
	case 5:
		return eNeg(eIdx(leaf, eConst("1", 1))) // -(a[1])
	}
	return leaf
}

func cloneTree(n *enode) *enode {
	c := *n
	c.kids = make([]*enode, len(n.kids))
	for i, k := range n.kids {
		c.kids[i] = cloneTree(k)
	}
	return &c
}

// leaves returns pointers to the variable leaves in written order
func leavesOf(n *enode, out *[]*enode) {
	if n.kind == "var" {
		*out = append(*out, n)
		return
	}
	for _, k := range n.kids {
		leavesOf(k, out)
	}
}

// notPositions: every node that may legally be wrapped in NOT (any node; the printer parenthesises)
func allNodes(n *enode, out *[]*enode) {
	*out = append(*out, n)
	for _, k := range n.kids {
		allNodes(k, out)
	}
}

func c01Trees(tier string) []*enode {
	c01Mu.Lock()
	defer c01Mu.Unlock()
	if t, ok := c01TreeCache[tier]; ok {
		return t
	}
	trees := []*enode{}
	add := func(t *enode) { trees = append(trees, t) }
	allOps := append(append([]string{}, binOps...), postOps...)
	mk := func(op string, l, r *enode) *enode {
		if strings.HasPrefix(op, "IS ") {
			return ePost(op, l)
		}
		return eBin(op, l, r)
	}
	isPost := func(op string) bool { return strings.HasPrefix(op, "IS ") }
	// S0: primaries and decorations
	add(eVar("a"))
	add(eConst("1", 1))
	add(eConst("2.5", float32(2.5)))
	add(eConst("'x'", "x"))
	add(eConst("TRUE", true))
	for d := 1; d <= 5; d++ {
		add(c01Decorate(eVar("a"), d))
	}
	add(eNot(eVar("a")))
	add(eNeg(eNeg(eVar("a"))))
	add(eNot(eNot(eVar("a"))))
	// calls
	add(eCall("F"))
	add(eCall("F", eVar("a")))
	add(eCall("F", eVar("a"), eVar("b")))
	add(eCall("F", eVar("a"), eVar("b"), eVar("c")))
	add(eCall("F", eCall("G", eVar("a")), eVar("b")))
	add(eCall("G", eCall("F"), eCall("F", eVar("a"))))
	add(eCall("F", eBin("+", eVar("a"), eVar("b")), eVar("c")))
	add(eBin("+", eCall("F", eVar("a")), eCall("G", eVar("b"), eVar("c"))))
	add(eBin("-", eCall("G", eVar("b"), eVar("a")), eCall("F", eVar("c"))))
	add(eIdx(eCall("F", eVar("a")), eVar("b")))
	add(eCall("F", eIdx(eVar("a"), eVar("b"))))
	add(eNeg(eCall("F", eVar("a"))))
	add(eCall("G", eNot(eVar("a")), ePost("IS NULL", eVar("b"))))
	// a function with a side effect on the variables between two occurrences of the same name
	add(eBin("+", eBin("+", eBin("*", eVar("a"), eConst("2", 2)), eCall("B")), eVar("a")))
	add(eBin("-", eVar("a"), eBin("*", eCall("B", eVar("a")), eVar("a"))))
	add(eCall("F", eVar("a"), eCall("B", eVar("b")), eVar("a")))
	add(eCall("G", eBin("+", eVar("a"), eVar("b")), eCall("B"), eBin("+", eVar("b"), eVar("a")), eCall("B"), eVar("a")))
	add(eNeg(eBin("+", eCall("B"), eBin("*", eVar("a"), eVar("a")))))
	// re-entrant evaluation of the same calculator with operands pending; a variable removed between two reads
	add(eBin("*", eVar("a"), eCall("N", eBin("-", eVar("a"), eConst("1", 1)))))
	add(eBin("-", eVar("a"), eCall("N", eVar("b"))))
	add(eCall("F", eVar("b"), eCall("N"), eBin("+", eVar("a"), eCall("N", eVar("b")))))
	add(eBin("+", eBin("+", eVar("a"), eCall("D")), eVar("a")))
	add(eCall("F", eVar("a"), eCall("D"), eVar("b"), eVar("a")))
	add(eBin("OR", ePost("IS NULL", eVar("a")), eBin("=", eCall("D"), eVar("a"))))
	// S1: one operator
	for _, op := range allOps {
		base := mk(op, c01Leaf(0), c01Leaf(1))
		add(base)
		nl := 2
		if isPost(op) {
			nl = 1
		}
		for pos := 0; pos < nl; pos++ {
			for d := 1; d <= 5; d++ {
				t := cloneTree(base)
				t.kids[pos] = c01Decorate(t.kids[pos], d)
				add(t)
			}
			t := cloneTree(base)
			t.kids[pos] = eNot(t.kids[pos])
			add(t)
		}
		add(eNot(cloneTree(base)))
		add(eNeg(cloneTree(base)))
		add(eIdx(cloneTree(base), eConst("1", 1)))
		// constants as operands
		if !isPost(op) {
			add(mk(op, eConst("2", 2), c01Leaf(0)))
			add(mk(op, c01Leaf(0), eConst("'x'", "x")))
			// a string literal and a numeric literal with the same text in one program
			add(mk(op, eConst("'1'", "1"), eConst("1", 1)))
			add(mk(op, eConst("1", 1), eConst("'1'", "1")))
			add(mk(op, eConst("'2.5'", "2.5"), eBin("+", eConst("2.5", float32(2.5)), c01Leaf(0))))
		}
	}
	// S2: two operators, every shape
	two := []*enode{}
	for _, o1 := range allOps {
		for _, o2 := range allOps {
			switch {
			case !isPost(o1) && !isPost(o2):
				two = append(two, eBin(o1, eBin(o2, c01Leaf(0), c01Leaf(1)), c01Leaf(2)), eBin(o1, c01Leaf(0), eBin(o2, c01Leaf(1), c01Leaf(2))))
			case !isPost(o1) && isPost(o2):
				two = append(two, eBin(o1, ePost(o2, c01Leaf(0)), c01Leaf(1)), eBin(o1, c01Leaf(0), ePost(o2, c01Leaf(1))))
			case isPost(o1) && !isPost(o2):
				two = append(two, ePost(o1, eBin(o2, c01Leaf(0), c01Leaf(1))))
			default:
				two = append(two, ePost(o1, ePost(o2, c01Leaf(0))))
			}
		}
	}
	for _, t := range two {
		add(t)
	}
	for i, t := range two {
		// NOT at the root and at the inner operator node
		add(eNot(cloneTree(t)))
		c := cloneTree(t)
		for k, kid := range c.kids {
			if !kid.isPrim() {
				c.kids[k] = eNot(kid)
			}
		}
		add(c)
		// one decoration at a time (quick: rotate the decoration, thorough: all)
		var ls []*enode
		c2 := cloneTree(t)
		leavesOf(c2, &ls)
		if tier == "thorough" {
			for pos := range ls {
				for d := 1; d <= 3; d++ {
					c3 := cloneTree(t)
					var l3 []*enode
					leavesOf(c3, &l3)
					*l3[pos] = *c01Decorate(cloneTree(l3[pos]), d)
					add(c3)
				}
			}
			// all decorations jointly
			if len(ls) >= 2 {
				c4 := cloneTree(t)
				var l4 []*enode
				leavesOf(c4, &l4)
				for pos := range l4 {
					*l4[pos] = *c01Decorate(cloneTree(l4[pos]), 1+(i+pos)%3)
				}
				add(c4)
			}
		} else {
			pos := i % len(ls)
			*ls[pos] = *c01Decorate(cloneTree(ls[pos]), 1+i%3)
			add(c2)
		}
	}
	// S3: three binary operators, five shapes (thorough)
	if tier == "thorough" {
		L := c01Leaf
		for _, o1 := range binOps {
			for _, o2 := range binOps {
				for _, o3 := range binOps {
					add(eBin(o1, eBin(o2, eBin(o3, L(0), L(1)), L(2)), L(3)))
					add(eBin(o1, eBin(o2, L(0), eBin(o3, L(1), L(2))), L(3)))
					add(eBin(o1, eBin(o2, L(0), L(1)), eBin(o3, L(2), L(3))))
					add(eBin(o1, L(0), eBin(o2, eBin(o3, L(1), L(2)), L(3))))
					add(eBin(o1, L(0), eBin(o2, L(1), eBin(o3, L(2), L(3)))))
				}
			}
		}
	}
	// S4: three operators from the multi-character symbol families that share a first character
	// (every ordered triple, so every A,B,A pattern), as one left chain and as three comparisons joined by AND
	{
		L := c01Leaf
		sib := []string{"<=", "<>", "<<", "<", ">=", ">>", ">", "!=", "="}
		for _, o1 := range sib {
			for _, o2 := range sib {
				for _, o3 := range sib {
					if tier != "thorough" {
						add(eBin(o1, eBin(o2, eBin(o3, L(0), L(1)), L(2)), L(3)))
					}
					add(eBin("AND", eBin("AND", eBin(o1, L(0), L(1)), eBin(o2, L(2), L(3))), eBin(o3, L(0), L(1))))
				}
			}
		}
	}
	c01TreeCache[tier] = trees
	return trees
}

var c01Styles = []printStyle{{}, {full: true}, {kwCase: 1, compact: true}, {kwCase: 2}}

type c01Log struct{ calls []string }

func c01Funcs(log *c01Log, vars variables.IVariableCollection, nested func()) functions.IFunctionCollection {
	fc := functions.NewFunctionCollection()
	mkf := func(name string, ret func(args []*variants.Variant) *variants.Variant) {
		fc.Add(functions.NewDelegatedFunction(name, func(args []*variants.Variant, ops variants.IVariantOperations) (*variants.Variant, error) {
			p := []string{}
			for _, a := range args {
				p = append(p, variantStr(a))
			}
			log.calls = append(log.calls, name+"("+strings.Join(p, ",")+")")
			return ret(args), nil
		}))
	}
	mkf("F", func(args []*variants.Variant) *variants.Variant {
		if len(args) == 0 {
			return variants.VariantFromInteger(7)
		}
		return args[0]
	})
	mkf("G", func(args []*variants.Variant) *variants.Variant { return variants.VariantFromInteger(10 + len(args)) })
	// B has a side effect: every Integer variable of the collection in use gets a new value object
	// holding one more (operands are read in written order, so later occurrences see the new value)
	mkf("B", func(args []*variants.Variant) *variants.Variant {
		if vars != nil {
			for _, v := range vars.GetAll() {
				if v.Value() != nil && v.Value().Type() == variants.Integer {
					v.SetValue(variants.VariantFromInteger(v.Value().AsInteger() + 1))
				}
			}
		}
		return variants.VariantFromInteger(len(args))
	})
	// N evaluates the SAME calculator again while the outer evaluation has operands pending (re-entrancy),
	// then returns its first argument; in the reference the nested evaluation is simply absent
	mkf("N", func(args []*variants.Variant) *variants.Variant {
		if nested != nil {
			nested()
		}
		if len(args) == 0 {
			return variants.VariantFromInteger(5)
		}
		return args[0]
	})
	// D removes the variable a from the collection in use: a later occurrence of a is a missing variable
	mkf("D", func(args []*variants.Variant) *variants.Variant {
		if vars != nil {
			vars.RemoveByName("a")
		}
		return variants.VariantFromInteger(0)
	})
	return fc
}

func c01ValuePool(tier string) []poolVal {
	arr := poolVal{"[1,2,3]", func() *variants.Variant {
		return variants.VariantFromArray([]*variants.Variant{variants.VariantFromInteger(1), variants.VariantFromInteger(2), variants.VariantFromInteger(3)})
	}}
	one := poolVal{"1", func() *variants.Variant { return variants.VariantFromInteger(1) }}
	two := poolVal{"2", func() *variants.Variant { return variants.VariantFromInteger(2) }}
	str := poolVal{"'x'", func() *variants.Variant { return variants.VariantFromString("x") }}
	null := poolVal{"null", func() *variants.Variant { return variants.EmptyVariant() }}
	if tier == "thorough" {
		return []poolVal{one, two, {"2.5f", func() *variants.Variant { return variants.VariantFromFloat(2.5) }}, str,
			{"true", func() *variants.Variant { return variants.VariantFromBoolean(true) }}, null, arr}
	}
	return []poolVal{one, two, str, null, arr}
}

func c01Run(c *fw.Ctx, tree *enode, tier string) {
	ref := postorderOf(tree)
	texts := []string{}
	var calc0 *calculator.ExpressionCalculator
	for si, st := range c01Styles {
		text := tree.print(st)
		texts = append(texts, text)
		calc := calculator.NewExpressionCalculator()
		calc.SetAutoVariables(true)
		var err error
		pv := fw.Try(func() { err = calc.SetExpression(text) })
		c.Eval(1)
		if pv != nil || err != nil {
			c.Violation("generated-sentence-rejected", "style %d: SetExpression(%q) fails (%v / panic %v); tree post-order [%s]", si, text, err, pv, rtokStr(ref))
			return
		}
		if msg := sameProgram(calc.ResultTokens(), ref); msg != "" {
			sig := "tree-miscompiled"
			if si > 0 {
				sig = "printing-style-changes-program"
			}
			c.Violation(sig, "style %d: %q: %s; compiled [%s], post-order of the tree [%s]", si, text, msg, programStr(calc.ResultTokens()), rtokStr(ref))
			return
		}
		if si == 0 {
			calc0 = calc
		}
	}
	// model self-check: the recogniser must read the minimal printing back as this very tree
	{
		toks := []string{}
		tree.tokens(printStyle{}, &toks)
		vt := []vtok{}
		ok := true
		byText := map[string]vtok{}
		for _, v := range exprVocab {
			byText[v.text] = v
		}
		for _, t := range toks {
			if v, f := byText[t]; f {
				vt = append(vt, v)
			} else if len(t) == 1 && (t[0] >= 'a' && t[0] <= 'd' || t == "F" || t == "G" || t == "B" || t == "N" || t == "D") {
				vt = append(vt, vtok{t, "IDENT", nil})
			} else if t == "2" {
				vt = append(vt, vtok{"2", "CONST", 2})
			} else {
				ok = false
			}
		}
		if ok {
			verdict, t2 := recognise(vt)
			c.Count("model_traces_crosschecked", 1)
			if verdict != "accept" || rtokStr(postorderOf(t2)) != rtokStr(ref) {
				c.Violation("MODEL-recogniser-disagrees-with-generator", "tokens %q: recogniser says %s", strings.Join(toks, " "), verdict)
				return
			}
		}
	}
	// evaluation under every assignment
	pool := c01ValuePool(tier)
	var ls []*enode
	leavesOf(tree, &ls)
	names := []string{}
	seen := map[string]bool{}
	for _, l := range ls {
		if !seen[l.name] {
			seen[l.name] = true
			names = append(names, l.name)
		}
	}
	nAssign := 1
	for range names {
		nAssign *= len(pool)
	}
	for k := 0; k < nAssign; k++ {
		mkVars := func() (variables.IVariableCollection, string) {
			vc := variables.NewVariableCollection()
			kk := k
			d := []string{}
			for _, n := range names {
				p := pool[kk%len(pool)]
				kk /= len(pool)
				vc.Add(variables.NewVariable(n, p.mk()))
				d = append(d, n+"="+p.label)
			}
			// behind them: the same names in the other letter case (the first one added wins) and twelve more
			// entries, so that the collection is past any small-collection shortcut
			for _, n := range names {
				other := strings.ToUpper(n)
				if other == n {
					other = strings.ToLower(n)
				}
				if other != n {
					vc.Add(variables.NewVariable(other, variants.VariantFromInteger(999)))
				}
			}
			for f := 1; f <= 12; f++ {
				vc.Add(variables.NewVariable("filler"+itoa(f), variants.VariantFromInteger(f)))
			}
			return vc, strings.Join(d, ",")
		}
		vars1, desc := mkVars()
		vars2, _ := mkVars()
		log1, log2 := &c01Log{}, &c01Log{}
		nestedEval := func() {
			vn, _ := mkVars()
			fw.Try(func() { calc0.EvaluateUsingVariablesAndFunctions(vn, c01Funcs(&c01Log{}, vn, nil)) })
		}
		var got *variants.Variant
		var gerr error
		pv := fw.Try(func() { got, gerr = calc0.EvaluateUsingVariablesAndFunctions(vars1, c01Funcs(log1, vars1, nestedEval)) })
		var want *variants.Variant
		wantState := ""
		pv2 := fw.Try(func() {
			want, wantState = evalTree(tree, &evalEnv{ops: calc0.VariantOperations(), vars: vars2, funcs: c01Funcs(log2, vars2, nil)})
		})
		c.Eval(1)
		if pv2 != nil {
			wantState = "open" // the operator itself panics: C03/C06's business, not tree shape
		}
		if wantState == "open" {
			if pv != nil {
				c.Count("open_outcome_panics(C03)", 1)
			}
			continue
		}
		if pv != nil {
			c.Violation("evaluation-panics", "%q with %s: panic %s (tree value: %s %s)", texts[0], desc, panicShort(pv), variantStr(want), wantState)
			continue
		}
		if (got == nil) == (gerr == nil) {
			c.Violation("evaluation-result-xor-error", "%q with %s: result=%v err=%v", texts[0], desc, got != nil, gerr)
			continue
		}
		if strings.HasPrefix(wantState, "error") {
			if gerr == nil {
				c.Violation("value-differs-from-tree", "%q with %s = %s, direct evaluation of the tree fails: %s", texts[0], desc, variantStr(got), wantState)
			}
		} else if gerr != nil {
			c.Violation("value-differs-from-tree", "%q with %s fails with %v, direct evaluation of the tree gives %s", texts[0], desc, gerr, variantStr(want))
		} else if variantStr(got) != variantStr(want) {
			c.Violation("value-differs-from-tree", "%q with %s = %s, direct evaluation of the tree gives %s", texts[0], desc, variantStr(got), variantStr(want))
		}
		if gerr == nil && !strings.HasPrefix(wantState, "error") && strings.Join(log1.calls, ";") != strings.Join(log2.calls, ";") {
			c.Violation("function-calls-differ", "%q with %s: calls observed %v, written order %v", texts[0], desc, log1.calls, log2.calls)
		}
		if gerr == nil {
			c.Outcome("value:" + tn(got.Type()))
		} else {
			c.Outcome("error")
		}
	}
	// the calculator's own automatic variables (created for every name of the expression, all Null)
	// and its default function table: Evaluate() equals the tree evaluated with every variable Null
	{
		nullVars := variables.NewVariableCollection()
		for _, n := range names {
			nullVars.Add(variables.NewVariable(unquoteIdent(n), variants.EmptyVariant()))
		}
		var got, want *variants.Variant
		var gerr error
		wantState := ""
		pv := fw.Try(func() { got, gerr = calc0.Evaluate() })
		pv2 := fw.Try(func() {
			want, wantState = evalTree(tree, &evalEnv{ops: calc0.VariantOperations(), vars: nullVars, funcs: calc0.DefaultFunctions()})
		})
		c.Eval(1)
		if pv2 == nil && wantState != "open" && pv == nil {
			switch {
			case strings.HasPrefix(wantState, "error"):
				if gerr == nil {
					c.Violation("value-differs-from-tree:automatic-variables", "%q with its automatic (Null) variables = %s, direct evaluation of the tree fails: %s", texts[0], variantStr(got), wantState)
				}
			case gerr != nil:
				c.Violation("value-differs-from-tree:automatic-variables", "%q with its automatic (Null) variables fails with %v, direct evaluation of the tree gives %s", texts[0], gerr, variantStr(want))
			case variantStr(got) != variantStr(want):
				c.Violation("value-differs-from-tree:automatic-variables", "%q with its automatic (Null) variables = %s, direct evaluation of the tree with every variable Null gives %s", texts[0], variantStr(got), variantStr(want))
			}
		}
	}
	if len(ls) >= 2 {
		c.Nontrivial()
	}
}

func init() {
	fw.Register(&fw.Check{
		ID:    "C01",
		Level: "model_checking",
		Rule: "every syntax tree of the reference grammar with <=2 operators over all 22 binary and 2 postfix operators in both nestings, leaves decorated with unary minus / index / call / -a[1] / -(a[1]), NOT at the root and at inner nodes, calls with 0..3 and nested arguments (thorough: all 3-operator binary trees in 5 shapes, all single and joint decorations), every ordered triple of the 9 comparison/shift symbols that share a first character as a left chain and as three comparisons joined by AND; each tree printed in 4 styles (minimal parentheses, full parentheses, compact with comments and lower-case keywords, mixed-case keywords) and evaluated under every assignment of its variables from a 5 (thorough 7) value pool and with the calculator's own automatic (Null) variables; " +
			"oracle: ResultTokens = post-order of the tree for all printings, value = direct recursive evaluation of the tree applying the same IVariantOperations object in written order, function call log identical; non-trivial = trees with >=2 variable leaves",
		Assume: []string{"operator arithmetic itself is decided by C06; nodes whose operator outcome is unspecified (NOT IN on Null, a function returning nil) are skipped for that assignment", "the recogniser/generator pair is cross-checked on every generated tree"},
		Spaces: func(tier string) []fw.Space {
			trees := c01Trees(tier)
			return []fw.Space{{Name: "trees", N: int64(len(trees)), Timeout: 120e9,
				Run:  func(c *fw.Ctx, i int64) { c01Run(c, trees[i], tier) },
				Repr: func(i int64) string { return fmt.Sprintf("tree %q", trees[i].print(printStyle{})) }}}
		},
		Bounds: func(tier string) string {
			if tier == "thorough" {
				return "all trees with <=2 operators (24 operators) with every single decoration and NOT placement, all 3-operator binary trees (5 shapes x 22^3), 7^k assignments"
			}
			return "all trees with <=2 operators (24 operators), one decoration / NOT placement at a time, 5^k assignments"
		},
	})
}
