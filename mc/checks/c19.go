package checks

import (
	"time"
	"fmt"
	"os"
	"os/exec"
	"strings"

	"verifmc/fw"
	"verifmc/sched"
	"verifmc/snap"

	"github.com/pip-services3-gox/pip-services3-expressions-gox/calculator"
	cerrors "github.com/pip-services3-gox/pip-services3-expressions-gox/calculator/errors"
	"github.com/pip-services3-gox/pip-services3-expressions-gox/calculator/functions"
	"github.com/pip-services3-gox/pip-services3-expressions-gox/calculator/parsers"
	ctok "github.com/pip-services3-gox/pip-services3-expressions-gox/calculator/tokenizers"
	"github.com/pip-services3-gox/pip-services3-expressions-gox/calculator/variables"
	"github.com/pip-services3-gox/pip-services3-expressions-gox/csv"
	rio "github.com/pip-services3-gox/pip-services3-expressions-gox/io"
	"github.com/pip-services3-gox/pip-services3-expressions-gox/mustache"
	merrors "github.com/pip-services3-gox/pip-services3-expressions-gox/mustache/errors"
	mparsers "github.com/pip-services3-gox/pip-services3-expressions-gox/mustache/parsers"
	mtok "github.com/pip-services3-gox/pip-services3-expressions-gox/mustache/tokenizers"
	"github.com/pip-services3-gox/pip-services3-expressions-gox/tokenizers"
	"github.com/pip-services3-gox/pip-services3-expressions-gox/tokenizers/generic"
	"github.com/pip-services3-gox/pip-services3-expressions-gox/tokenizers/utilities"
	"github.com/pip-services3-gox/pip-services3-expressions-gox/variants"
	"github.com/pip-services3-gox/pip-services3-expressions-gox/verifsched"
)

// C19 — evaluation is pure and repeatable, also under concurrent use.

// allGlobals: addresses of every package-level variable of every repository
// package (exporters generated into the build overlay at check time).
func allGlobals() []interface{} {
	ms := []map[string]interface{}{
		variants.VerifGlobals(), calculator.VerifGlobals(), cerrors.VerifGlobals(), functions.VerifGlobals(), parsers.VerifGlobals(), ctok.VerifGlobals(),
		variables.VerifGlobals(), csv.VerifGlobals(), rio.VerifGlobals(), mustache.VerifGlobals(), merrors.VerifGlobals(), mparsers.VerifGlobals(), mtok.VerifGlobals(),
		tokenizers.VerifGlobals(), generic.VerifGlobals(), utilities.VerifGlobals(),
	}
	out := []interface{}{}
	names := []string{}
	for _, m := range ms {
		for k := range m {
			names = append(names, k)
		}
	}
	// deterministic order
	for _, m := range ms {
		keys := []string{}
		for k := range m {
			keys = append(keys, k)
		}
		sortStrings(keys)
		for _, k := range keys {
			out = append(out, m[k])
		}
	}
	_ = names
	return out
}

func sortStrings(s []string) {
	for i := 1; i < len(s); i++ {
		for j := i; j > 0 && s[j] < s[j-1]; j-- {
			s[j], s[j-1] = s[j-1], s[j]
		}
	}
}

func globalsCount() int { return len(allGlobals()) }

var c19VarSets = []map[string]func() *variants.Variant{
	{"a": func() *variants.Variant { return variants.VariantFromInteger(1) }, "b": func() *variants.Variant { return variants.VariantFromInteger(2) }, "c": func() *variants.Variant {
		return variants.VariantFromArray([]*variants.Variant{variants.VariantFromInteger(1), variants.VariantFromInteger(2), variants.VariantFromInteger(3)})
	}, "d": func() *variants.Variant { return variants.VariantFromInteger(4) }},
	{"a": func() *variants.Variant { return variants.VariantFromDouble(1.5) }, "b": func() *variants.Variant { return variants.VariantFromFloat(2.5) }, "c": func() *variants.Variant { return variants.VariantFromInteger(3) }, "d": func() *variants.Variant { return variants.EmptyVariant() }},
	{"a": func() *variants.Variant {
		return variants.VariantFromArray([]*variants.Variant{variants.VariantFromInteger(5), variants.VariantFromString("y")})
	}, "b": func() *variants.Variant { return variants.VariantFromString("x") }, "c": func() *variants.Variant { return variants.VariantFromDouble(3) }, "d": func() *variants.Variant { return variants.VariantFromInteger(0) }},
}

func init() {
	// sets 3 and 4: a date-time next to the SAME text in two spellings (canonical / other letter case and
	// padded with blanks): whatever converting one of them leaves behind must not change the other's result
	dt := func() *variants.Variant {
		return variants.VariantFromDateTime(time.Date(2021, 3, 6, 7, 8, 9, 0, time.UTC))
	}
	c19VarSets = append(c19VarSets,
		map[string]func() *variants.Variant{"a": dt, "b": func() *variants.Variant { return variants.VariantFromString(" 2021-03-06t07:08:09z ") }, "c": func() *variants.Variant { return variants.VariantFromString("1E1") }, "d": func() *variants.Variant { return variants.VariantFromString(" TRUE") }},
		map[string]func() *variants.Variant{"a": dt, "b": func() *variants.Variant { return variants.VariantFromString("2021-03-06T07:08:09Z") }, "c": func() *variants.Variant { return variants.VariantFromString("1e1") }, "d": func() *variants.Variant { return variants.VariantFromString("true") }},
	)
}

func c19Vars(k int) *variables.VariableCollection {
	vc := variables.NewVariableCollection()
	for _, n := range []string{"a", "b", "c", "d"} {
		vc.Add(variables.NewVariable(n, c19VarSets[k][n]()))
	}
	return vc
}

func c19AddHarnessFuncs(fc functions.IFunctionCollection) {
	fc.Add(functions.NewDelegatedFunction("F", func(args []*variants.Variant, ops variants.IVariantOperations) (*variants.Variant, error) {
		if len(args) == 0 {
			return variants.VariantFromInteger(7), nil
		}
		return args[0], nil
	}))
	fc.Add(functions.NewDelegatedFunction("G", func(args []*variants.Variant, ops variants.IVariantOperations) (*variants.Variant, error) {
		return variants.VariantFromInteger(10 + len(args)), nil
	}))
	fc.Add(functions.NewDelegatedFunction("Y", func(args []*variants.Variant, ops variants.IVariantOperations) (*variants.Variant, error) {
		sched.Yield("callback:Y")
		if len(args) == 0 {
			return variants.EmptyVariant(), nil
		}
		return args[0], nil
	}))
}

func resultStr(v *variants.Variant, err error, pv interface{}) string {
	if pv != nil {
		return "panic(" + panicShort(pv) + ")"
	}
	if err != nil {
		return "error(" + errStrS(err) + ")" // (and overwrites the error object, as its owner may)
	}
	return variantStr(v)
}

// ---- (a) sequential purity

func c19PurityExpr(c *fw.Ctx, text string, histLen int) {
	calc := calculator.NewExpressionCalculator()
	c19AddHarnessFuncs(calc.DefaultFunctions())
	if err := calc.SetExpression(text); err != nil {
		c.Outcome("not-compiled")
		return
	}
	funcs := functions.NewDefaultFunctionCollection()
	c19AddHarnessFuncs(funcs)
	c19PurityExprGroup(c, calc, funcs, text, histLen, []int{0, 1, 2})
	c19PurityExprGroup(c, calc, funcs, text, histLen, []int{3, 4, 3})
	// the same under a user-supplied operations manager that hands out retained objects for equal scalar
	// results (one TRUE, one FALSE, one object per number or string): what an operator returned is not the
	// calculator's to write into
	ops := &c19InterningOps{inner: variants.NewTypeUnsafeVariantOperations(), kept: map[string]*variants.Variant{}}
	calc2 := calculator.NewExpressionCalculator()
	calc2.SetVariantOperations(ops)
	c19AddHarnessFuncs(calc2.DefaultFunctions())
	if err := calc2.SetExpression(text); err != nil {
		return
	}
	c19PurityExprGroup(c, calc2, funcs, text, histLen, []int{0, 1, 2})
	for k, v := range ops.kept {
		if variantStr(v) != k {
			c.Violation("evaluation-writes-into-operator-result", "expression %q under an operations manager that keeps the objects it returns: the object returned for %s now holds %s", text, k, variantStr(v))
			return
		}
	}
}

// c19InterningOps wraps the type-unsafe manager and returns one retained object per distinct scalar result.
type c19InterningOps struct {
	inner variants.IVariantOperations
	kept  map[string]*variants.Variant
}

func (o *c19InterningOps) keep(v *variants.Variant, err error) (*variants.Variant, error) {
	if err != nil || v == nil {
		return v, err
	}
	switch v.Type() {
	case variants.Array, variants.Object:
		return v, err
	}
	k := variantStr(v)
	if kv, ok := o.kept[k]; ok && variantStr(kv) == k {
		return kv, nil
	}
	o.kept[k] = v
	return v, nil
}
func (o *c19InterningOps) Convert(a *variants.Variant, t variants.VariantType) (*variants.Variant, error) {
	r, err := o.inner.Convert(a, t)
	if r == a {
		return r, err // the operand itself handed through
	}
	return o.keep(r, err)
}
func (o *c19InterningOps) Add(a, b *variants.Variant) (*variants.Variant, error) { return o.keep(o.inner.Add(a, b)) }
func (o *c19InterningOps) Sub(a, b *variants.Variant) (*variants.Variant, error) { return o.keep(o.inner.Sub(a, b)) }
func (o *c19InterningOps) Mul(a, b *variants.Variant) (*variants.Variant, error) { return o.keep(o.inner.Mul(a, b)) }
func (o *c19InterningOps) Div(a, b *variants.Variant) (*variants.Variant, error) { return o.keep(o.inner.Div(a, b)) }
func (o *c19InterningOps) Mod(a, b *variants.Variant) (*variants.Variant, error) { return o.keep(o.inner.Mod(a, b)) }
func (o *c19InterningOps) Pow(a, b *variants.Variant) (*variants.Variant, error) { return o.keep(o.inner.Pow(a, b)) }
func (o *c19InterningOps) And(a, b *variants.Variant) (*variants.Variant, error) { return o.keep(o.inner.And(a, b)) }
func (o *c19InterningOps) Or(a, b *variants.Variant) (*variants.Variant, error)  { return o.keep(o.inner.Or(a, b)) }
func (o *c19InterningOps) Xor(a, b *variants.Variant) (*variants.Variant, error) { return o.keep(o.inner.Xor(a, b)) }
func (o *c19InterningOps) Lsh(a, b *variants.Variant) (*variants.Variant, error) { return o.keep(o.inner.Lsh(a, b)) }
func (o *c19InterningOps) Rsh(a, b *variants.Variant) (*variants.Variant, error) { return o.keep(o.inner.Rsh(a, b)) }
func (o *c19InterningOps) Not(a *variants.Variant) (*variants.Variant, error)    { return o.keep(o.inner.Not(a)) }
func (o *c19InterningOps) Negative(a *variants.Variant) (*variants.Variant, error) {
	return o.keep(o.inner.Negative(a))
}
func (o *c19InterningOps) Equal(a, b *variants.Variant) (*variants.Variant, error) {
	return o.keep(o.inner.Equal(a, b))
}
func (o *c19InterningOps) NotEqual(a, b *variants.Variant) (*variants.Variant, error) {
	return o.keep(o.inner.NotEqual(a, b))
}
func (o *c19InterningOps) More(a, b *variants.Variant) (*variants.Variant, error) { return o.keep(o.inner.More(a, b)) }
func (o *c19InterningOps) Less(a, b *variants.Variant) (*variants.Variant, error) { return o.keep(o.inner.Less(a, b)) }
func (o *c19InterningOps) MoreEqual(a, b *variants.Variant) (*variants.Variant, error) {
	return o.keep(o.inner.MoreEqual(a, b))
}
func (o *c19InterningOps) LessEqual(a, b *variants.Variant) (*variants.Variant, error) {
	return o.keep(o.inner.LessEqual(a, b))
}
func (o *c19InterningOps) In(a, b *variants.Variant) (*variants.Variant, error) { return o.keep(o.inner.In(a, b)) }
func (o *c19InterningOps) GetElement(a, b *variants.Variant) (*variants.Variant, error) {
	return o.inner.GetElement(a, b) // an element of the operand, handed through
}

func c19PurityExprGroup(c *fw.Ctx, calc *calculator.ExpressionCalculator, funcs functions.IFunctionCollection, text string, histLen int, group []int) {
	vars := []*variables.VariableCollection{c19Vars(group[0]), c19Vars(group[1]), c19Vars(group[2])}
	globals := allGlobals()
	hProg := func() uint64 { return snap.Hash(calc.ResultTokens()) }
	hVars := func() uint64 { return snap.Hash(vars[0], vars[1], vars[2], calc.DefaultVariables()) }
	hFuncs := func() uint64 { return snap.Hash(funcs, calc.DefaultFunctions()) }
	hRest := func() uint64 { return snap.Hash(append([]interface{}{calc}, globals...)...) }
	p0, v0, f0, r0 := hProg(), hVars(), hFuncs(), hRest()
	first := map[int]string{}
	nh := countStrings(3, histLen)
	suspects := 0
	for hi := int64(1); hi < nh; hi++ {
		h := seqByIndex(3, hi)
		if len(h) > 1 && hi%3 != 0 && histLen > 2 && len(h) == histLen {
			// every history of full length is covered; shorter ones are prefixes of them
		}
		for step, k := range h {
			var r *variants.Variant
			var err error
			pv := fw.Try(func() {
				if (step+k)%2 == 0 {
					r, err = calc.EvaluateUsingVariablesAndFunctions(vars[k], funcs)
				} else {
					r, err = calc.EvaluateUsingVariables(vars[k])
				}
			})
			c.Eval(1)
			got := resultStr(r, err, pv)
			if f, ok := first[k]; !ok {
				first[k] = got
			} else if f != got {
				c.Violation("evaluation-not-repeatable", "expression %q: evaluation #%d of history %v (variable sets %v) under variable set %d gives %s, the first evaluation gave %s", text, step+1, h, group, group[k], got, f)
				return
			}
			if p := hProg(); p != p0 {
				c.Violation("evaluation-modifies-compiled-program", "expression %q: after history %v the compiled program / its constants changed", text, h[:step+1])
				return
			}
			if v := hVars(); v != v0 {
				c.Violation("evaluation-modifies-variable-values", "expression %q: after history %v the variable collections changed", text, h[:step+1])
				return
			}
			if f := hFuncs(); f != f0 {
				c.Violation("evaluation-modifies-function-table", "expression %q: after history %v the function table changed", text, h[:step+1])
				return
			}
		}
		if r := hRest(); r != r0 {
			suspects++
			r0 = r
		}
	}
	if suspects > 0 {
		c.Count("suspect_state_changes(scratch field or package variable; decided by schedules/race pass)", int64(suspects))
		c.Outcome("suspect-state-change")
	} else {
		c.Outcome("pure")
	}
	c.Nontrivial()
	c.Count("states", nh)
	c.Count("transitions", nh*int64(histLen))
}

func c19PurityTemplate(c *fw.Ctx, text string, histLen int) {
	c19PurityTemplateMode(c, text, histLen, 0)
	// the same with automatic variables on and, handed in after the template was set, a caller-owned map of
	// defaults that lacks most names of the template: rendering reads it, it does not complete it
	c19PurityTemplateMode(c, text, histLen, 1)
}

func c19PurityTemplateMode(c *fw.Ctx, text string, histLen int, mode int) {
	t := mustache.NewMustacheTemplate()
	if mode == 1 {
		t.SetAutoVariables(true)
	}
	if err := t.SetTemplate(text); err != nil {
		c.Outcome("not-compiled")
		return
	}
	partial := map[string]string{"a": "dflt"}
	if mode == 1 {
		t.SetDefaultVariables(partial)
	}
	maps := []map[string]string{{"a": "v", "B": ""}, {"A": "\"/\\", "b": "w"}, {}}
	globals := allGlobals()
	hProg := func() uint64 { return snap.Hash(t.ResultTokens()) }
	hVars := func() uint64 { return snap.Hash(maps, t.DefaultVariables(), partial) }
	hRest := func() uint64 { return snap.Hash(append([]interface{}{t}, globals...)...) }
	p0, v0, r0 := hProg(), hVars(), hRest()
	first := map[int]string{}
	nh := countStrings(3, histLen)
	for hi := int64(1); hi < nh; hi++ {
		h := seqByIndex(3, hi)
		for step, k := range h {
			var r string
			var err error
			pv := fw.Try(func() { r, err = t.EvaluateWithVariables(maps[k]) })
			c.Eval(1)
			got := fmt.Sprintf("%q/%v/%v", r, err, pv)
			if f, ok := first[k]; !ok {
				first[k] = got
			} else if f != got {
				c.Violation("rendering-not-repeatable", "template %q: rendering #%d of history %v under map %d gives %s, first gave %s", text, step+1, h, k, got, f)
				return
			}
			if hProg() != p0 {
				c.Violation("rendering-modifies-compiled-template", "template %q: after history %v the parsed template changed", text, h[:step+1])
				return
			}
			if hVars() != v0 {
				c.Violation("rendering-modifies-variable-values", "template %q: after history %v a variable map changed", text, h[:step+1])
				return
			}
		}
		if r := hRest(); r != r0 {
			c.Count("suspect_state_changes(scratch field or package variable; decided by schedules/race pass)", 1)
			r0 = r
		}
	}
	c.Nontrivial()
	c.Outcome("pure")
	c.Count("states", nh)
	c.Count("transitions", nh*int64(histLen))
}

// ---- (b) schedule exploration

type yieldVars struct{ inner *variables.VariableCollection }

func (y *yieldVars) Add(v variables.IVariable)       { y.inner.Add(v) }
func (y *yieldVars) Length() int                     { return y.inner.Length() }
func (y *yieldVars) Get(i int) variables.IVariable   { return y.inner.Get(i) }
func (y *yieldVars) GetAll() []variables.IVariable   { return y.inner.GetAll() }
func (y *yieldVars) FindIndexByName(n string) int    { return y.inner.FindIndexByName(n) }
func (y *yieldVars) Locate(n string) variables.IVariable { return y.inner.Locate(n) }
func (y *yieldVars) Remove(i int)                    { y.inner.Remove(i) }
func (y *yieldVars) RemoveByName(n string)           { y.inner.RemoveByName(n) }
func (y *yieldVars) Clear()                          { y.inner.Clear() }
func (y *yieldVars) ClearValues()                    { y.inner.ClearValues() }
func (y *yieldVars) FindByName(n string) variables.IVariable {
	sched.Yield("callback:FindByName(" + n + ")")
	return y.inner.FindByName(n)
}

type c19Harness struct {
	name string
	// expect, when set, is the result thread i must produce by construction (independent of any run)
	expect func(i int) string
	// build returns thread bodies writing into results, a pre/post snapshot function, and a description
	build func(nThreads int, results []string) (bodies []func(), snapshot func() uint64)
}

var c19Programs = []string{"Y(a)+Y(b)*Y(c)", "If(Y(a)>1,Y(b),Y(c))", "Y(c)[Y(b)]", "Array(Y(a),Y(b))", "a+b IN c", "a*b-d", "Max(a,b)+Min(b,d)", "-a[b]", "a IS NULL OR NOT b"}

var c19Templates = []string{"{{#a}}x{{B}}{{#b}}y{{{a}}}{{/b}}{{/a}}!{{^c}}z{{/c}}", "Hello {{a}}, {{{B}}}{{#if c}}+{{/if}}", "{{#unless a}}no{{/unless}}{{#a}}{{#a}}{{a}}{{/a}}{{/a}}"}

// programs whose evaluation FAILS inside a built-in (wrong argument counts and values): the error of one
// evaluation, overwritten by its owner, must not come back from the next one
var c19FailingPrograms = []string{"Max(a)", "Min()", "Sum(a) + 1", "Abs()", "Abs(a, b)", "If(a)", "Choose(a)", "Sqrt('x')", "Contains(a)", "a / 0", "a[99]", "Date(a)", "DayOfWeek()", "1 << -1", "zz + 1", "NoSuchFunction(1)"}

func c19PurityText(trees []*enode, i int64) string {
	if int(i) < len(trees) {
		return trees[i].print(printStyle{})
	}
	return c19FailingPrograms[int(i)-len(trees)]
}

var c19FunctionPrograms = []string{
	"Rnd() >= 0 AND Rnd() < 1 AND Random() >= 0 AND Random() < 1 AND Ticks() > 0 AND Now() IS NOT NULL",
	"Abs(-2) = 2 AND Max(1,3) = 3 AND Min(1,3) = 1 AND Sum(1,2,3) = 6 AND If(TRUE,1,2) = 1 AND Choose(2,'a','b') = 'b' AND E() > 2 AND Pi() > 3 AND Contains('abc','b') AND Array(1,2)[1] = 2 AND Empty('')",
	"Exp(0) = 1 AND Ln(1) = 0 AND Log(1) = 0 AND Log10(100) = 2 AND Ceil(1.2) = 2 AND Ceiling(1.2) = 2 AND Floor(1.8) = 1 AND Round(1.4) = 1 AND Trunc(1.7) = 1 AND Truncate(1.7) = 1 AND Sqrt(4) = 2 AND Sqr(4) = 2",
	"Cos(0) = 1 AND Sin(0) = 0 AND Tan(0) = 0 AND Acos(1) = 0 AND Asin(0) = 0 AND Atan(0) = 0 AND DayOfWeek(Date(2020,1,1)) >= 0 AND Date(2020,1,1) IS NOT NULL AND TimeSpan(1,0,0,0) IS NOT NULL",
}

func c19Harnesses() []c19Harness {
	hs := []c19Harness{}
	for _, prog := range c19Programs {
		prog := prog
		hs = append(hs, c19Harness{name: "H1 shared calculator " + prog, build: func(n int, results []string) ([]func(), func() uint64) {
			calc := calculator.NewExpressionCalculator()
			if err := calc.SetExpression(prog); err != nil {
				panic("harness program rejected: " + prog + ": " + err.Error())
			}
			bodies := []func(){}
			for i := 0; i < n; i++ {
				i := i
				vars := &yieldVars{c19Vars(i % 3)}
				funcs := functions.NewDefaultFunctionCollection()
				c19AddHarnessFuncs(funcs)
				bodies = append(bodies, func() {
					var r *variants.Variant
					var err error
					pv := fw.Try(func() { r, err = calc.EvaluateUsingVariablesAndFunctions(vars, funcs) })
					results[i] = resultStr(r, err, pv)
				})
			}
			return bodies, func() uint64 { return snap.Hash(calc.ResultTokens()) }
		}})
	}
	for _, tmpl := range c19Templates {
		tmpl := tmpl
		hs = append(hs, c19Harness{name: "H2 shared template " + tmpl, build: func(n int, results []string) ([]func(), func() uint64) {
			t := mustache.NewMustacheTemplate()
			if err := t.SetTemplate(tmpl); err != nil {
				panic("harness template rejected: " + tmpl + ": " + err.Error())
			}
			maps := []map[string]string{{"a": "v/\"", "B": "w\n\\", "c": ""}, {"A": "\"/x", "b": "\t1/", "C": "1"}, {"a": "/", "b": "q\""}}
			bodies := []func(){}
			for i := 0; i < n; i++ {
				i := i
				bodies = append(bodies, func() {
					var r string
					var err error
					pv := fw.Try(func() { r, err = t.EvaluateWithVariables(maps[i%3]) })
					results[i] = fmt.Sprintf("%q/%v/%v", r, err, pv)
				})
			}
			return bodies, func() uint64 { return snap.Hash(t.ResultTokens()) }
		}})
	}
	// H3: every thread owns its instances
	type own struct {
		name string
		run  func(i int) string
	}
	owns := []own{
		{"expression tokenizer", func(i int) string {
			t := ctok.NewExpressionTokenizer()
			return safeObs(func() string {
				return tokStr(toRecs(t.TokenizeBuffer([]string{"a<=b<>c", "x<<1>=y!=z", "<> <= <<"}[i%3])))
			})
		}},
		{"generic tokenizer", func(i int) string {
			t := generic.NewGenericTokenizer()
			return safeObs(func() string { return tokStr(toRecs(t.TokenizeBuffer([]string{"a<=b<>c", "-1.5>=x", "<> <= >="}[i%3]))) })
		}},
		{"calculator", func(i int) string {
			return safeObs(func() string {
				calc := calculator.NewExpressionCalculator()
				if err := calc.SetExpression([]string{"a+b*2<=c", "Max(a,b)<>c", "a<<1>=b"}[i%3]); err != nil {
					return "set:" + errStr(err)
				}
				r, err := calc.EvaluateUsingVariables(c19Vars(i % 3))
				return resultStr(r, err, nil)
			})
		}},
		{"template", func(i int) string {
			return safeObs(func() string {
				t := mustache.NewMustacheTemplate()
				if err := t.SetTemplate(c19Templates[i%3]); err != nil {
					return "set:" + errStr(err)
				}
				r, err := t.EvaluateWithVariables(map[string]string{"a": fmt.Sprint(i), "b": "w"})
				return fmt.Sprintf("%q/%v", r, err)
			})
		}},
		{"csv tokenizer", func(i int) string {
			t := csv.NewCsvTokenizer()
			return safeObs(func() string { return tokStr(toRecs(t.TokenizeBuffer([]string{"a,\"b\"\r\nc", "x\n\ry", "\"q\"\"q\",z\r"}[i%3]))) })
		}},
	}
	// H4: every thread owns a calculator and registers ITS OWN function and variable in the
	// calculator's default tables; the expected value is known by construction
	hs = append(hs, c19Harness{name: "H4 separate calculators with their own default functions and variables",
		expect: func(i int) string { return variantStr(variants.VariantFromInteger(i*1000 + i + 7)) },
		build: func(n int, results []string) ([]func(), func() uint64) {
			calcs := make([]*calculator.ExpressionCalculator, n)
			for i := 0; i < n; i++ {
				i := i
				calcs[i] = calculator.NewExpressionCalculator()
				calcs[i].DefaultFunctions().Add(functions.NewDelegatedFunction("Own", func(args []*variants.Variant, ops variants.IVariantOperations) (*variants.Variant, error) {
					sched.Yield("callback:Own")
					return variants.VariantFromInteger(i * 1000), nil
				}))
				calcs[i].DefaultVariables().Add(variables.NewVariable("mine", variants.VariantFromInteger(i)))
			}
			bodies := []func(){}
			for i := 0; i < n; i++ {
				i := i
				bodies = append(bodies, func() {
					results[i] = safeObs(func() string {
						if err := calcs[i].SetExpression("Own() + mine + Max(3, 7)"); err != nil {
							return "set:" + errStr(err)
						}
						r, err := calcs[i].Evaluate()
						return resultStr(r, err, nil)
					})
				})
			}
			return bodies, func() uint64 { return 0 }
		}})
	// H5: separate calculators calling the clock, random and every other default function (the
	// non-deterministic ones inside predicates whose value is fixed)
	for k, prog := range c19FunctionPrograms {
		k, prog := k, prog
		hs = append(hs, c19Harness{name: fmt.Sprintf("H5 separate calculators, default functions #%d", k), build: func(n int, results []string) ([]func(), func() uint64) {
			calcs := make([]*calculator.ExpressionCalculator, n)
			for i := range calcs {
				calcs[i] = calculator.NewExpressionCalculator()
				if err := calcs[i].SetExpression(prog); err != nil {
					panic("harness program rejected: " + prog + ": " + err.Error())
				}
			}
			bodies := []func(){}
			for i := 0; i < n; i++ {
				i := i
				bodies = append(bodies, func() {
					results[i] = safeObs(func() string {
						r, err := calcs[i].Evaluate()
						return resultStr(r, err, nil)
					})
				})
			}
			return bodies, func() uint64 { return 0 }
		}})
	}
	for _, o := range owns {
		o := o
		hs = append(hs, c19Harness{name: "H3 separate instances: " + o.name, build: func(n int, results []string) ([]func(), func() uint64) {
			bodies := []func(){}
			for i := 0; i < n; i++ {
				i := i
				bodies = append(bodies, func() { results[i] = o.run(i) })
			}
			return bodies, func() uint64 { return 0 }
		}})
	}
	return hs
}

func toRecs(ts []*tokenizers.Token) []tokRec {
	out := []tokRec{}
	for _, t := range ts {
		out = append(out, tokRec{t.Type(), t.Value(), t.Line(), t.Column()})
	}
	return out
}

func c19Schedules(c *fw.Ctx, h c19Harness, nThreads, boundShort, boundLong, threshold int, maxSchedules int64) {
	bound := boundShort
	verifsched.Hook = sched.Yield
	defer func() { verifsched.Hook = nil }()
	// sequential reference: each thread alone on a fresh harness
	want := make([]string, nThreads)
	for i := 0; i < nThreads; i++ {
		res := make([]string, nThreads)
		bodies, _ := h.build(nThreads, res)
		bodies[i]()
		want[i] = res[i]
		if h.expect != nil && want[i] != h.expect(i) {
			c.Violation("instances-share-state", "%s: thread %d run alone returns %s, by construction it must return %s", h.name, i, want[i], h.expect(i))
			return
		}
	}
	globals := allGlobals()
	g0 := snap.Hash(globals...)
	var results []string
	var snapFn func() uint64
	var before uint64
	mk := func() []func() {
		results = make([]string, nThreads)
		var bodies []func()
		bodies, snapFn = h.build(nThreads, results)
		before = snapFn()
		return bodies
	}
	distinct := map[string]bool{}
	failed := false
	// determinism: the default schedule replayed twice gives identical observations
	{
		x1, err1 := sched.Run(mk(), nil, 100000)
		r1 := strings.Join(results, "|")
		x2, err2 := sched.Run(mk(), x1.Choices, 100000)
		r2 := strings.Join(results, "|")
		if err1 != nil || err2 != nil || r1 != r2 || len(x1.Points) != len(x2.Points) {
			c.Violation("schedule-replay-not-deterministic", "%s: replaying the recorded schedule gives different observations (%v %v): %s vs %s", h.name, err1, err2, r1, r2)
			return
		}
		c.Count("yield_points_default_schedule", int64(len(x1.Points)))
		if len(x1.Points) > threshold {
			bound = boundLong
		}
		if len(x1.Points) > 6*threshold && bound > 1 {
			bound = 1 // very long bodies (every default function in one expression): one preemption, every position
		}
		if bound < 0 {
			c.Outcome("harness-too-long-for-this-tier")
			return
		}
	}
	st, err := sched.Explore(mk, bound, maxSchedules, 100000, func(x *sched.Exec) bool {
		c.Eval(1)
		distinct[strings.Join(results, "|")] = true
		for i := range results {
			if results[i] != want[i] {
				c.Violation("concurrent-result-differs-from-sequential", "%s: schedule %v (%d preemptions): thread %d returns %s, sequentially it returns %s", h.name, compactChoices(x.Choices), x.Preemptions, i, results[i], want[i])
				failed = true
				return false
			}
		}
		if snapFn() != before {
			c.Violation("concurrent-evaluation-modifies-program", "%s: schedule %v: the compiled program changed", h.name, compactChoices(x.Choices))
			failed = true
			return false
		}
		return true
	})
	if err != nil {
		c.Violation("schedule-exploration-error", "%s: %v", h.name, err)
		return
	}
	if failed {
		return
	}
	if snap.Hash(globals...) != g0 {
		c.Count("suspect_package_variable_changes", 1)
	}
	c.Count("states", st.Points)
	c.Count("transitions", st.Transitions)
	c.Count("schedules", st.Schedules)
	if st.Capped {
		c.Count("capped", 1)
		c.Note("cap:"+h.name, fmt.Sprintf("schedule cap %d hit with %d threads, bound %d", maxSchedules, nThreads, bound))
	}
	c.Note("sched:"+h.name, fmt.Sprintf("%d threads, preemption bound %d: %d schedules, longest %d points, %d distinct outcome vectors", nThreads, bound, st.Schedules, st.MaxPoints, len(distinct)))
	c.Outcome(fmt.Sprintf("distinct-outcome-vectors=%d", len(distinct)))
	if st.Schedules > 1 {
		c.Nontrivial()
	}
}

func compactChoices(ch []int) string {
	// run-length form: positions of non-zero choices
	p := []string{}
	for i, x := range ch {
		if x != 0 {
			p = append(p, fmt.Sprintf("%d:%d", i, x))
		}
	}
	return fmt.Sprintf("[len %d; switches at %s]", len(ch), strings.Join(p, ","))
}

// ---- (c) free-running race-detector pass (auxiliary, not exhaustive)

// RaceMain is the body of the -race build: the same harness bodies, uninstrumented, on real threads.
func RaceMain(rounds int) int {
	hs := c19Harnesses()
	for r := 0; r < rounds; r++ {
		for _, h := range hs {
			n := 2 + r%2
			res := make([]string, n)
			bodies, _ := h.build(n, res)
			start := make(chan struct{})
			done := make(chan struct{})
			for _, b := range bodies {
				b := b
				go func() {
					<-start
					b()
					done <- struct{}{}
				}()
			}
			close(start)
			for range bodies {
				<-done
			}
		}
	}
	fmt.Println("race pass finished")
	return 0
}

func c19RacePass(c *fw.Ctx, rounds int) {
	bin := os.Getenv("VERIF_RACE_BIN")
	if bin == "" {
		c.Note("race-pass", "skipped: no -race binary (VERIF_RACE_BIN unset)")
		c.Outcome("race-pass-skipped")
		return
	}
	cmd := exec.Command(bin, "racepass", fmt.Sprint(rounds))
	cmd.Env = append(os.Environ(), "GORACE=halt_on_error=0 exitcode=66", "GOMAXPROCS=4")
	out, err := cmd.CombinedOutput()
	c.Eval(int64(rounds * len(c19Harnesses())))
	s := string(out)
	if strings.Contains(s, "WARNING: DATA RACE") {
		// first report, trimmed
		i := strings.Index(s, "WARNING: DATA RACE")
		rep := s[i:]
		if len(rep) > 1800 {
			rep = rep[:1800]
		}
		sig := "data-race"
		for _, l := range strings.Split(rep, "\n") {
			l = strings.TrimSpace(l)
			if strings.HasPrefix(l, "github.com/pip-services3-gox/pip-services3-expressions-gox/") && strings.HasSuffix(l, "()") && !strings.Contains(l, "/verifsched.") {
				sig = "data-race:" + strings.TrimSuffix(strings.TrimPrefix(l, "github.com/pip-services3-gox/pip-services3-expressions-gox/"), "()")
				break
			}
		}
		c.Violation(sig, "free-running -race pass (%d rounds, 4 OS threads): %s", rounds, strings.ReplaceAll(rep, "\n", " | "))
		return
	}
	if err != nil || !strings.Contains(s, "race pass finished") {
		c.Violation("race-pass-crashed", "free-running -race pass failed: %v: %s", err, tail(s, 600))
		return
	}
	c.Note("race-pass", fmt.Sprintf("%d rounds x %d harnesses on 4 OS threads under the race detector: no report (sampling, not exhaustive)", rounds, len(c19Harnesses())))
	c.Outcome("race-pass-clean")
	c.Nontrivial()
}

func tail(s string, n int) string {
	if len(s) > n {
		s = s[len(s)-n:]
	}
	return strings.ReplaceAll(s, "\n", " | ")
}

func init() {
	fw.Register(&fw.Check{
		ID:    "C19",
		Level: "model_checking",
		Rule: "(a) every compiled expression of C01's tree set and every template of C10's AST set: all evaluation histories of length<=3 over 3 variable sets; after every evaluation deep snapshots (reflection walk incl. unexported fields) of the compiled program with its constants, the variable collections and the function tables are unchanged and the result equals the first result for that variable set; changes anywhere else (whole instance, all package-level variables of all repository packages, discovered at check time) are counted as suspects; " +
			"(b) cooperative-scheduler DFS over ALL schedules up to the preemption bound of 2 (thorough: 3) threads evaluating one shared calculator / one shared template with separate variable collections, and threads each owning a tokenizer / calculator / template (incl. calculators that call every default function, the clock and random ones inside predicates of fixed value); yield points = API callbacks plus a yield inserted at every function entry and loop head (except range loops over map parameters) of 10 evaluator, parser and tokenizer source files (regenerated from the working tree by a go/ast tool, injected with go build -overlay); every thread's result must equal its sequential result; one recorded schedule is replayed and must be deterministic; " +
			"(c) auxiliary free-running pass of the same bodies under the Go race detector (sampling; reported separately); non-trivial = programs evaluated / harnesses with more than one schedule",
		Assume: []string{"interleavings are explored at yield-point granularity (function entries, loop heads, callbacks), not at memory-access granularity; weak-memory effects are outside a scheduler-based exploration", "the race-detector pass samples real schedules and is not exhaustive"},
		Spaces: func(tier string) []fw.Space {
			trees := c01Trees("quick")
			alts := mAlternatives(2)
			nT := countStrings(len(alts), 2)
			step := int64(1)
			if tier == "quick" {
				step = 7
			}
			hs := c19Harnesses()
			sp := []fw.Space{
				{Name: "purity-expressions", N: int64(len(trees) + len(c19FailingPrograms)), Timeout: 120e9, Run: func(c *fw.Ctx, i int64) { c19PurityExpr(c, c19PurityText(trees, i), 3) },
					Repr: func(i int64) string { return fmt.Sprintf("expression %q, all evaluation histories of length<=3 over 3 variable sets", c19PurityText(trees, i)) }},
				{Name: "purity-templates", N: nT / step, Timeout: 120e9, Run: func(c *fw.Ctx, i int64) {
					nodes := mSeq(alts, seqByIndex(len(alts), i*step), int((i*step)%1000))
					if !mPrintable(nodes, true, true) {
						return
					}
					var sb strings.Builder
					mPrint(nodes, &sb)
					if sb.Len() > 0 {
						c19PurityTemplate(c, sb.String(), 3)
					}
				}, Repr: func(i int64) string {
					var sb strings.Builder
					mPrint(mSeq(alts, seqByIndex(len(alts), i*step), int((i*step)%1000)), &sb)
					return fmt.Sprintf("template %q", sb.String())
				}},
			}
			type cfg struct {
				threads, boundShort, boundLong, threshold int
				max                                       int64
			}
			// the preemption bound is chosen per harness from the length of its default schedule
			cfgs := []cfg{{2, 2, 1, 150, 300000}}
			if tier == "thorough" {
				cfgs = []cfg{{2, 3, 2, 100, 3000000}, {3, 2, 1, 100, 3000000}}
			}
			for _, cf := range cfgs {
				cf := cf
				sp = append(sp, fw.Space{Name: fmt.Sprintf("schedules-%dthreads", cf.threads), N: int64(len(hs)), Timeout: 3600e9,
					Run: func(c *fw.Ctx, i int64) {
						c19Schedules(c, hs[i], cf.threads, cf.boundShort, cf.boundLong, cf.threshold, cf.max)
					},
					Repr: func(i int64) string {
						return fmt.Sprintf("%s, %d threads, <=%d preemptions (<=%d if the default schedule has more than %d points)", hs[i].name, cf.threads, cf.boundShort, cf.boundLong, cf.threshold)
					}})
			}
			rounds := 30
			if tier == "thorough" {
				rounds = 300
			}
			sp = append(sp, fw.Space{Name: "race-detector-pass", N: 1, Timeout: 1800e9, Run: func(c *fw.Ctx, i int64) { c19RacePass(c, rounds) },
				Repr: func(i int64) string { return "free-running race-detector pass" }})
			return sp
		},
		Bounds: func(tier string) string {
			if tier == "thorough" {
				return "purity: 4.8k expressions and 33k templates x 39 histories; schedules: 21 harnesses, 2 threads <=3 preemptions (<=2 for harnesses with >100 yield points, <=1 above 600) and 3 threads <=2 (<=1) preemptions, cap 3M schedules per harness (reported if hit); race pass 300 rounds"
			}
			return "purity: 4.8k expressions and 4.8k templates x 39 histories; schedules: 21 harnesses, 2 threads <=2 preemptions (<=1 for harnesses with >150 yield points), all complete; race pass 30 rounds"
		},
	})
}
