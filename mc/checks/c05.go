package checks

import (
	ctok "github.com/pip-services3-gox/pip-services3-expressions-gox/calculator/tokenizers"
	"fmt"
	"reflect"
	"strings"

	"verifmc/fw"

	cerr "github.com/pip-services3-gox/pip-services3-commons-gox/errors"
	"github.com/pip-services3-gox/pip-services3-expressions-gox/calculator"
	"github.com/pip-services3-gox/pip-services3-expressions-gox/calculator/parsers"
	"github.com/pip-services3-gox/pip-services3-expressions-gox/calculator/variables"
	"github.com/pip-services3-gox/pip-services3-expressions-gox/csv"
	rio "github.com/pip-services3-gox/pip-services3-expressions-gox/io"
	"github.com/pip-services3-gox/pip-services3-expressions-gox/mustache"
	mparsers "github.com/pip-services3-gox/pip-services3-expressions-gox/mustache/parsers"
	"github.com/pip-services3-gox/pip-services3-expressions-gox/tokenizers"
	"github.com/pip-services3-gox/pip-services3-expressions-gox/variants"
)

// C05 — reused instances give history-independent results.

var c05TokPools = map[string][]string{
	"generic": {"", "a", "<=", "<>", ">=", "<", "<= <> <=", "a<=b", "<><=>=", "<=<>", "-12", "1.5", "-", ".", "-.", "1.", "'a'", "'abc", "\"x", "# c", "#", "# c\nd",
		" ", "a b\nc", "\U0001F600", "a\U0001F600b", "я", "привет 12", "x-y", "a<>b<=c>=d", ">=<>", "=<", "<", "'<>'<=", "12<=-3"},
	"expression": {"", "a", "<=", "<>", "<<", ">=", ">>", "!=", "<= <> << >= >> !=", "a<=b", "a<>b", "1<<2", "<<<=", "<>>=", "!=<=", "/* c */", "/*", "/", "/ *", "'it''s'", "'abc", "\"q\"", "\"q",
		"1e5", "1e", "1.5E-3", "AND", "a and b", "\U0001F600", "a\U0001F600", "-1", ".", "a\nb", "x >= y >> z", "!", "<", ">"},
	"csv": {"", "a,b", "\"a,b\",c", "\"a\"\"b\"", "\"abc", "a\r\nb", "a\n\rb", "\r", "\n", "\r\n", "\n\r", "a;b", "я,é", ",", ",,", "\"", "a\rb\nc", "\"x\"\r\n\"y\"", "a,\"b\nc\",d", "\r\r\n\n", "\n\r\n"},
	"mustache": {"", "x", "{{a}}", "{{{a}}}", "{{#a}}x{{/a}}", "{{a", "{{", "}}", "{{{", "}}}", "a}}b", "{{ a }} b", "{{a}}{{b}}", "{{!c}}", "{{a \U0001F600 b}}", "x{y", "{{'q'}}", "{{'q", "я{{я}}", "{{{a}}", "{{a}}}", "{{}}}{{{}}", "x{{", "{{a}} {{{b}}} {{c}}"},
}

var c05ExprPool = []string{"1+2", "a+b", "a<=b", "a<>b", "1<<2", "a>=b", "a>>1", "a!=b", "A+a", "f(1,2)", "Max(a,b)", "(", ")", "1 2", "a b NULL", "a IS NULL", "a NOT IN b", "a[1]", "'x'+'y'", "-a", "NOT a", "1/0", "", "  ",
	"/*c*/", "a AND", "@", "x IS NOT NULL", "b", "a+", "1e2+1.5", "\"a b\"+1", "\U0001F600", "TRUE AND FALSE", "1 IN Array(1,2)", "a LIKE b", "2^3", "If(a,b,c)", "c*(a+b)", "a<=b AND b<>c OR a<<1>=2", "Min(a,b,c)+zz",
	"v1+v2+v3+v4+v5+v6+v7+v8+v9", "w1+w2+w3+w4+w5+w6+w7+w8+v1", "v9-v8-v7-v6-v5-v4-v3-v2-v1-w1", "Sum(v1,v2,v3,v4,v5,v6,v7,v8,v9,v10,v11,v12,v13,v14,v15,v16,v17)*w1",
	"'1'+(1+2)", "1+'1'", "'7'", "7+1", "'2.5'+2.5", "2.5+'2.5'", "'TRUE'+1", "\"1\"+1", "1", "'1'"}

var c05TmplPool = []string{"x", "{{a}}", "{{{a}}}", "{{#a}}x{{/a}}", "{{^a}}y{{/a}}", "{{#if a}}x{{/if}}", "{{#unless a}}x{{/unless}}", "{{#a}}x", "{{/a}}", "{{a", "{{a}}}", "{{{a}}", "{{!c}}", "Hello {{NAME}}!",
	"{{#a}}{{#b}}x{{/b}}{{/a}}", "{{#a}}x{{/b}}", "", "{{}}", "{{a b}}", "{{#if}}", "x{{a}}y{{b}}z", "{{'q'}}", "я{{я}}", "{{a}}{{A}}", "{{zz}}{{#zz}}1{{/zz}}", "{{^b}}{{c}}{{/b}}"}

// errStrS formats an error and then, like a caller who owns the value it was handed, overwrites it
// (code, message, correlation id, details): an error object the library keeps and hands out again
// shows up as a wrong error later.
func errStrS(err error) string {
	out := errStr(err)
	if ae, ok := err.(*cerr.ApplicationError); ok && ae != nil {
		ae.Code = ""
		ae.Message = "overwritten by the caller"
		ae.CorrelationId = "overwritten-by-the-caller"
		ae.Details = map[string]interface{}{"overwritten": true}
		ae.Status = 299
	}
	return out
}

func errStr(err error) string {
	if err == nil {
		return "nil"
	}
	if ae, ok := err.(*cerr.ApplicationError); ok {
		return "error(" + ae.Code + ": " + ae.Message + ")"
	}
	return "error(" + err.Error() + ")"
}

func variantStr(v *variants.Variant) string {
	if v == nil {
		return "<nil>"
	}
	s := ""
	fw.Try(func() { s = fmt.Sprintf("%d:%v", v.Type(), variantPayload(v)) })
	return s
}

func variantPayload(v *variants.Variant) string {
	if v.Type() == variants.Array {
		p := []string{}
		for _, e := range v.AsArray() {
			p = append(p, variantStr(e))
		}
		return "[" + strings.Join(p, ",") + "]"
	}
	return fmt.Sprintf("%#v", v.AsObject())
}

func exprTokensStr(ts []*parsers.ExpressionToken) string {
	p := []string{}
	for _, t := range ts {
		p = append(p, fmt.Sprintf("%d(%s)@%d:%d", t.Type(), variantStr(t.Value()), t.Line(), t.Column()))
	}
	return strings.Join(p, " ")
}

func mustTokensStr(ts []*mparsers.MustacheToken) string {
	p := []string{}
	for _, t := range ts {
		s := fmt.Sprintf("%d(%q)@%d:%d", t.Type(), t.Value(), t.Line(), t.Column())
		if t.Tokens() != nil {
			s += "{" + mustTokensStr(t.Tokens()) + "}"
		}
		p = append(p, s)
	}
	return strings.Join(p, " ")
}

func c05Vars() variables.IVariableCollection {
	vc := variables.NewVariableCollection()
	vc.Add(variables.NewVariable("a", variants.VariantFromInteger(1)))
	vc.Add(variables.NewVariable("b", variants.VariantFromInteger(2)))
	vc.Add(variables.NewVariable("c", variants.VariantFromInteger(3)))
	return vc
}

// c05Object wraps one reusable instance; step feeds one input and returns the observation.
type c05Object struct {
	name string
	pool []string
	make func() func(in string) string
}

func safeObs(f func() string) (out string) {
	defer func() {
		if p := recover(); p != nil {
			out = "panic(" + panicShort(p) + ")"
		}
	}()
	return f()
}

func tokObjsStr(ts []*tokenizers.Token) string {
	p := []string{}
	for _, t := range ts {
		if t == nil {
			p = append(p, "<nil>")
			continue
		}
		p = append(p, tokRec{t.Type(), t.Value(), t.Line(), t.Column()}.String())
	}
	return "[" + strings.Join(p, " ") + "]"
}

func c05Objects() []c05Object {
	objs := []c05Object{}
	for _, kind := range tokKinds {
		kind := kind
		for _, o := range []int{0, optSkipWhitespaces | optSkipComments | optSkipEof | optDecode} {
			o := o
			objs = append(objs, c05Object{name: fmt.Sprintf("%s-tokenizer%s", kind, optStr(o)), pool: c05TokPools[kind], make: func() func(string) string {
				t := newTokenizer(kind)
				setOptions(t, o)
				c05LastInst = []interface{}{t}
				// token OBJECTS handed out for the previous input (by a NextToken loop and by TokenizeBuffer)
				// are kept and looked at again after the next input: they must still say what they said
				var held, heldList []*tokenizers.Token
				heldStr, heldListStr := "", ""
				return func(in string) string {
					r := tokenizeOn(t, in)
					if r.failed() {
						held = nil
						return "failed(" + r.failStr() + ")"
					}
					out := tokStr(r.toks)
					var viaLoop, viaBuffer []*tokenizers.Token
					pv := fw.Try(func() {
						t.SetReader(rio.NewStringScanner(in))
						for tk := t.NextToken(); tk != nil && len(viaLoop) < 4*len(in)+8; tk = t.NextToken() {
							viaLoop = append(viaLoop, tk)
						}
						viaBuffer = t.TokenizeBuffer(in)
					})
					if pv != nil {
						held = nil
						return out + " second-pass-panics(" + panicShort(pv) + ")"
					}
					if held != nil {
						if now := tokObjsStr(held); now != heldStr {
							out += " EARLIER-RESULT-CHANGED(" + heldStr + " became " + now + ")"
						}
						if now := tokObjsStr(heldList); now != heldListStr {
							out += " EARLIER-RESULT-LIST-CHANGED(" + heldListStr + " became " + now + ")"
						}
					}
					if a, b := tokObjsStr(viaLoop), tokObjsStr(viaBuffer); a != b {
						out += " LOOP-AND-BUFFER-DIFFER(" + a + " vs " + b + ")"
					}
					held = append(append([]*tokenizers.Token{}, viaLoop...), viaBuffer...)
					heldStr = tokObjsStr(held)
					heldList, heldListStr = viaBuffer, tokObjsStr(viaBuffer) // the very slice TokenizeBuffer returned
					return out
				}
			}})
		}
	}
	objs = append(objs, c05Object{name: "ExpressionParser", pool: c05ExprPool, make: func() func(string) string {
		p := parsers.NewExpressionParser()
		c05LastInst = []interface{}{p}
		return func(in string) string {
			return safeObs(func() string {
				err := p.ParseString(in)
				return fmt.Sprintf("err=%s result=[%s] vars=%q initial=%d", errStrS(err), exprTokensStr(p.ResultTokens()), p.VariableNames(), len(p.InitialTokens()))
			})
		}
	}})
	objs = append(objs, c05Object{name: "ExpressionCalculator", pool: c05ExprPool, make: func() func(string) string {
		calc := calculator.NewExpressionCalculator()
		c05LastInst = []interface{}{calc}
		return func(in string) string {
			return safeObs(func() string {
				err := calc.SetExpression(in)
				out := "set=" + errStrS(err) + " result=[" + exprTokensStr(calc.ResultTokens()) + "]"
				if err == nil {
					out += safeObs(func() string { v, e := calc.Evaluate(); return " eval=" + variantStr(v) + "/" + errStrS(e) })
					out += safeObs(func() string {
						v, e := calc.EvaluateUsingVariables(c05Vars())
						return " evalvars=" + variantStr(v) + "/" + errStrS(e)
					})
				}
				return out
			})
		}
	}})
	objs = append(objs, c05Object{name: "MustacheParser", pool: c05TmplPool, make: func() func(string) string {
		p := mparsers.NewMustacheParser()
		c05LastInst = []interface{}{p}
		return func(in string) string {
			return safeObs(func() string {
				err := p.ParseString(in)
				return fmt.Sprintf("err=%s result=[%s] vars=%q", errStrS(err), mustTokensStr(p.ResultTokens()), p.VariableNames())
			})
		}
	}})
	objs = append(objs, c05Object{name: "MustacheTemplate", pool: c05TmplPool, make: func() func(string) string {
		t := mustache.NewMustacheTemplate()
		c05LastInst = []interface{}{t}
		return func(in string) string {
			return safeObs(func() string {
				err := t.SetTemplate(in)
				out := "set=" + errStrS(err)
				if err == nil {
					out += safeObs(func() string { v, e := t.Evaluate(); return fmt.Sprintf(" eval=%q/%s", v, errStrS(e)) })
					out += safeObs(func() string {
						v, e := t.EvaluateWithVariables(map[string]string{"a": "v", "b": "w", "name": "N"})
						return fmt.Sprintf(" evalvars=%q/%s", v, errStrS(e))
					})
				}
				return out
			})
		}
	}})
	// a template object that is cleared after every input, rendering with one map the caller keeps
	objs = append(objs, c05Object{name: "MustacheTemplate+Clear+callers-map", pool: c05TmplPool, make: func() func(string) string {
		t := mustache.NewMustacheTemplate()
		shared := map[string]string{"a": "v", "b": "w", "name": "N"}
		c05LastInst = []interface{}{t}
		return func(in string) string {
			return safeObs(func() string {
				t.SetDefaultVariables(shared) // Clear() drops the object's defaults; the caller hands the map in again
				err := t.SetTemplate(in)
				out := "set=" + errStrS(err)
				if err == nil {
					out += safeObs(func() string { v, e := t.Evaluate(); return fmt.Sprintf(" eval=%q/%s", v, errStrS(e)) })
					out += safeObs(func() string {
						v, e := t.EvaluateWithVariables(shared)
						return fmt.Sprintf(" evalvars=%q/%s", v, errStrS(e))
					})
				}
				t.Clear()
				out += safeObs(func() string {
					v, e := t.EvaluateWithVariables(shared)
					return fmt.Sprintf(" after-clear=%q/%s values a=%q b=%q name=%q", v, errStrS(e), shared["a"], shared["b"], shared["name"])
				})
				return out
			})
		}
	}})
	// a calculator that is cleared after every input; its automatic variables get values derived from their names
	objs = append(objs, c05Object{name: "ExpressionCalculator+Clear", pool: c05ExprPool, make: func() func(string) string {
		calc := calculator.NewExpressionCalculator()
		c05LastInst = []interface{}{calc}
		return func(in string) string {
			return safeObs(func() string {
				err := calc.SetExpression(in)
				out := "set=" + errStrS(err) + " result=[" + exprTokensStr(calc.ResultTokens()) + "]"
				if err == nil {
					for _, v := range calc.DefaultVariables().GetAll() {
						h := 0
						for _, ch := range strings.ToUpper(v.Name()) {
							h = h*31 + int(ch)
						}
						v.SetValue(variants.VariantFromInteger(h % 1000))
					}
					out += safeObs(func() string { v, e := calc.Evaluate(); return " eval=" + variantStr(v) + "/" + errStrS(e) })
					out += fmt.Sprintf(" defaults=%q", c18Names(calc.DefaultVariables()))
				}
				calc.Clear()
				out += safeObs(func() string {
					return fmt.Sprintf(" after-clear: defaults=%d result=%d", calc.DefaultVariables().Length(), len(calc.ResultTokens()))
				})
				return out
			})
		}
	}})
	// a CSV tokenizer with a separator above U+00FF; inputs with other characters of that region before it
	objs = append(objs, c05Object{name: "csv-tokenizer+wide-separator", pool: []string{"a\u2016b", "\u2116", "\u2116\u2016b", "x", "\u2016", "a,b", "\u2116a\u2016\u2116", "\"\u2016\"\u2016c"}, make: func() func(string) string {
		t := csv.NewCsvTokenizer()
		t.SetFieldSeparators([]rune{0x2016})
		c05LastInst = []interface{}{t}
		return func(in string) string {
			r := tokenizeOn(t, in)
			if r.failed() {
				return "failed(" + r.failStr() + ")"
			}
			return tokStr(r.toks)
		}
	}})
	// an expression tokenizer used while the exported keyword list alternates between the default one and
	// an edited one (LIKE dropped, BETWEEN added), depending on the input: the list in force is what counts
	objs = append(objs, c05Object{name: "expression-tokenizer+keywords-alternating", pool: []string{"a like b", "x between 1", "like", "LIKE+between", "a and b", "1"}, make: func() func(string) string {
		t := newTokenizer("expression")
		setOptions(t, 0)
		c05LastInst = []interface{}{t}
		return func(in string) string {
			saved := ctok.Keywords
			if len(in)%2 == 0 {
				edited := []string{"BETWEEN"}
				for _, k := range saved {
					if k != "LIKE" {
						edited = append(edited, k)
					}
				}
				ctok.Keywords = edited
			}
			defer func() { ctok.Keywords = saved }()
			r := tokenizeOn(t, in)
			if r.failed() {
				return "failed(" + r.failStr() + ")"
			}
			return tokStr(r.toks)
		}
	}})
	return objs
}

// ---- writes into containers handed out by one instance must not reach another, fresh instance

// c05LastInst: the library object(s) behind the most recently made c05Object
var c05LastInst []interface{}

// scribbleGetters calls every exported zero-argument, single-result method of obj; slices and maps it
// hands out are overwritten in place, collections and states are emptied through their own Clear* methods.
func scribbleGetters(obj interface{}, depth int) int {
	n := 0
	v := reflect.ValueOf(obj)
	if !v.IsValid() || (v.Kind() == reflect.Ptr && v.IsNil()) {
		return 0
	}
	t := v.Type()
	for i := 0; i < t.NumMethod(); i++ {
		m := t.Method(i)
		mt := m.Type
		if mt.NumIn() != 1 || mt.NumOut() != 1 {
			continue
		}
		name := m.Name
		if name == "NextToken" || name == "ReadNextToken" || name == "HasNextToken" || strings.HasPrefix(name, "Clear") || strings.HasPrefix(name, "Evaluate") || strings.HasPrefix(name, "New") || name == "Clone" || name == "String" {
			continue
		}
		var out reflect.Value
		if pv := fw.Try(func() { out = v.Method(i).Call(nil)[0] }); pv != nil || !out.IsValid() {
			continue
		}
		for out.Kind() == reflect.Interface && !out.IsNil() {
			out = out.Elem()
		}
		switch out.Kind() {
		case reflect.Slice:
			for k := 0; k < out.Len(); k++ {
				e := out.Index(k)
				if !e.CanSet() {
					continue
				}
				switch e.Kind() {
				case reflect.Int32, reflect.Int, reflect.Int64:
					e.SetInt('~')
				case reflect.String:
					e.SetString("SCRIBBLED")
				default:
					e.Set(reflect.Zero(e.Type()))
				}
				n++
			}
		case reflect.Map:
			for _, k := range out.MapKeys() {
				if out.Type().Elem().Kind() == reflect.String {
					out.SetMapIndex(k, reflect.ValueOf("SCRIBBLED").Convert(out.Type().Elem()))
				} else {
					out.SetMapIndex(k, reflect.Value{})
				}
				n++
			}
		case reflect.Ptr:
			if out.IsNil() || depth <= 0 {
				continue
			}
			// range switches of character-class states: disable everything
			for k := 0; k < out.NumMethod(); k++ {
				ft := out.Method(k).Type()
				if strings.HasPrefix(out.Type().Method(k).Name, "Set") && ft.NumIn() == 3 && ft.In(0).Kind() == reflect.Int32 && ft.In(1).Kind() == reflect.Int32 && ft.In(2).Kind() == reflect.Bool {
					f := out.Method(k)
					fw.Try(func() {
						f.Call([]reflect.Value{reflect.ValueOf(rune(0)), reflect.ValueOf(rune(0xfffe)), reflect.ValueOf(false)})
					})
					n++
				}
			}
			// symbol tables: register further symbols with odd token types
			if f := out.MethodByName("Add"); f.IsValid() && f.Type().NumIn() == 2 && f.Type().In(0).Kind() == reflect.String && f.Type().In(1).Kind() == reflect.Int {
				for _, sym := range []string{"=>", "<", "<=", "**", ",", "{{", "a"} {
					sym := sym
					fw.Try(func() { f.Call([]reflect.Value{reflect.ValueOf(sym), reflect.ValueOf(int(tokenizers.Word))}) })
					n++
				}
			}
			for _, cm := range []string{"Clear", "ClearWordChars", "ClearWhitespaceChars", "ClearValues"} {
				if f := out.MethodByName(cm); f.IsValid() && f.Type().NumIn() == 0 {
					fw.Try(func() { f.Call(nil) })
					n++
				}
			}
			n += scribbleGetters(out.Interface(), depth-1)
		}
	}
	return n
}

func c05Scribble(c *fw.Ctx, ob c05Object, in string) {
	mk := ob.name + "\x00" + in
	if _, ok := c05FreshMemo[mk]; !ok {
		c05FreshMemo[mk] = ob.make()(in)
	}
	first := c05FreshMemo[mk]
	a := ob.make()
	insts := c05LastInst
	a(in)
	n := 0
	for _, x := range insts {
		n += scribbleGetters(x, 2)
	}
	c.Eval(2)
	if n > 0 {
		c.Nontrivial()
	}
	now := ob.make()(in)
	if now != first {
		c.Violation("fresh-instance-affected-by-writes-through-another-instance:"+ob.name, "%s: instance A was fed %q, then every slice/map its getters hand out was overwritten and its collections/states cleared (%d writes); a NEW instance fed %q now gives\n      now:   %s\n      first: %s", ob.name, in, n, in, now, first)
	}
	c.Outcome(fmt.Sprintf("%s:writes>0=%v", ob.name, n > 0))
}

var c05FreshMemo = map[string]string{}

func c05RunSeq(c *fw.Ctx, ob c05Object, seq []int) {
	step := ob.make()
	hist := []string{}
	for _, k := range seq {
		in := ob.pool[k]
		got := step(in)
		want := ob.make()(in)
		c.Eval(2)
		// the fresh instance is itself compared with what a fresh instance of this kind gave for this
		// input the first time this process asked: state shared through package-level variables would
		// contaminate the reused and the fresh instance alike and cancel out in the comparison below
		mk := ob.name + "\x00" + in
		if first, ok := c05FreshMemo[mk]; !ok {
			c05FreshMemo[mk] = want
		} else if first != want {
			c.Violation("fresh-instance-depends-on-process-history:"+ob.name, "%s: a FRESH instance fed %q gives\n      now:   %s\n      first: %s\n      (this worker process fed other instances %q since)", ob.name, in, want, first, hist)
			return
		}
		if got != want {
			sig := "history-dependent:" + ob.name
			if strings.Contains(got, "failed(") || strings.Contains(got, "panic(") {
				sig = "fails-only-after-history:" + ob.name
			}
			c.Violation(sig, "%s: after inputs %q, input %q gives\n      reused: %s\n      fresh:  %s", ob.name, hist, in, got, want)
			return
		}
		hist = append(hist, in)
		cls := "ok"
		if strings.Contains(got, "error(") {
			cls = "error"
		} else if strings.Contains(got, "panic(") || strings.Contains(got, "failed(") {
			cls = "panic-on-both"
		}
		c.Outcome(ob.name + ":" + cls)
	}
	if len(seq) >= 2 {
		c.Nontrivial()
	}
	c.Count("transitions", int64(len(seq)))
	c.Count("states", int64(len(seq)))
}

// abort: SetReader on x, fetch k tokens, abandon, then tokenize y.
// c05SameScanner: one tokenizer and ONE scanner object: start an iteration, query HasNextToken,
// rewind the scanner with Reset and hand the same object to TokenizeStream again.
func c05SameScanner(c *fw.Ctx, kind string, o int, x string, k int) {
	t := newTokenizer(kind)
	setOptions(t, o)
	sc := rio.NewStringScanner(x)
	want := tokenize(kind, o, x)
	if want.failed() {
		return
	}
	var got []*tokenizers.Token
	pv := fw.Try(func() {
		t.SetReader(sc)
		for i := 0; i < k; i++ {
			if t.NextToken() == nil {
				break
			}
		}
		t.HasNextToken()
		sc.Reset()
		got = t.TokenizeStream(sc)
	})
	c.Eval(1)
	c.Nontrivial()
	if pv != nil || tokStr(toRecs(got)) != tokStr(want.toks) {
		c.Violation("stale-lookahead-on-same-scanner:"+kind, "%s tokenizer %s: SetReader(sc over %q), %d fetches, HasNextToken, sc.Reset(), TokenizeStream(sc) gives %s (panic %v); a fresh tokenizer gives %s", kind, optStr(o), x, k, tokStr(toRecs(got)), pv, tokStr(want.toks))
	}
}

func c05Abort(c *fw.Ctx, kind string, o int, x string, k int, y string) bool {
	t := newTokenizer(kind)
	setOptions(t, o)
	usable := true
	if pv := fw.Try(func() {
		t.SetReader(rio.NewStringScanner(x))
		for i := 0; i < k; i++ {
			if i%2 == 1 {
				t.HasNextToken()
			}
			if t.NextToken() == nil {
				usable = false
				break
			}
		}
		if k%3 == 2 {
			t.HasNextToken() // abandon with a cached look-ahead token
		}
	}); pv != nil {
		return false
	}
	if !usable {
		return false
	}
	got := tokenizeOn(t, y)
	want := tokenize(kind, o, y)
	c.Eval(2)
	gs, ws := tokStr(got.toks), tokStr(want.toks)
	if got.failed() {
		gs = "failed(" + got.failStr() + ")"
	}
	if want.failed() {
		ws = "failed(" + want.failStr() + ")"
	}
	if gs != ws {
		c.Violation("stale-state-after-aborted-iteration:"+kind, "%s tokenizer %s: after SetReader(%q)+%d NextToken and abandoning, %q gives %s; fresh: %s", kind, optStr(o), x, k, y, gs, ws)
	}
	return true
}

// has-next interleavings: pattern[i] queries before fetch i.
func c05HasNext(c *fw.Ctx, kind string, o int, in string, pattern []int) {
	want := tokenize(kind, o, in)
	if want.failed() {
		return
	}
	t := newTokenizer(kind)
	setOptions(t, o)
	var got []tokRec
	extra := ""
	pv := fw.Try(func() {
		t.SetReader(rio.NewStringScanner(in))
		for i := 0; i < len(want.toks)+3; i++ {
			q := 0
			if len(pattern) > 0 {
				q = pattern[i%len(pattern)]
			}
			has := true
			for j := 0; j < q; j++ {
				has = t.HasNextToken()
			}
			tk := t.NextToken()
			if q > 0 && has != (tk != nil) {
				extra = fmt.Sprintf("HasNextToken()=%v but NextToken() nil=%v at fetch %d", has, tk == nil, i)
			}
			if tk == nil {
				// after the end further queries must stay false / nil
				if t.HasNextToken() || t.NextToken() != nil {
					extra = "token produced after the end of the stream"
				}
				break
			}
			got = append(got, tokRec{tk.Type(), tk.Value(), tk.Line(), tk.Column()})
		}
	})
	c.Eval(1)
	if pv != nil {
		c.Violation("has-next-panic:"+kind, "%s tokenizer %s, input %q, has-next pattern %v: panic %s", kind, optStr(o), in, pattern, panicShort(pv))
		return
	}
	if tokStr(got) != tokStr(want.toks) || extra != "" {
		c.Violation("has-next-changes-stream:"+kind, "%s tokenizer %s, input %q, has-next pattern %v: got %s want %s %s", kind, optStr(o), in, pattern, tokStr(got), tokStr(want.toks), extra)
	}
	nz := false
	for _, p := range pattern {
		if p > 0 {
			nz = true
		}
	}
	if nz {
		c.Nontrivial()
	}
}

// alternate entry points must give what the main entry point gives on a fresh instance
func c05EntryPoints(c *fw.Ctx, kind string, in string) {
	c.Eval(1)
	c.Nontrivial()
	switch kind {
	case "expression":
		p1 := parsers.NewExpressionParser()
		obs := func(p *parsers.ExpressionParser, err error) string {
			return fmt.Sprintf("err=%s result=[%s] vars=%q", errStr(err), exprTokensStr(p.ResultTokens()), p.VariableNames())
		}
		var want string
		if pv := fw.Try(func() { want = obs(p1, p1.ParseString(in)) }); pv != nil {
			return // C03
		}
		// ParseTokens on the token list the parser itself produced
		p2 := parsers.NewExpressionParser()
		got := safeObs(func() string { return obs(p2, p2.ParseTokens(p1.OriginalTokens())) })
		// (a list without a significant token - empty, or only blanks and comments where the parser keeps them - is exempt)
		significant := 0
		for _, tk := range p1.OriginalTokens() {
			if tk != nil && tk.Type() != tokenizers.Whitespace && tk.Type() != tokenizers.Comment && tk.Type() != tokenizers.Eof {
				significant++
			}
		}
		if got != want && significant > 0 {
			c.Violation("entry-point-differs:ParseTokens", "expression %q: ParseTokens(OriginalTokens()) gives %s, ParseString gives %s", in, got, want)
		}
		// the text composed from the tokens, submitted as a string to the same instance, is parsed afresh
		if len(p1.OriginalTokens()) > 0 {
			composed := p2.Expression()
			pf := parsers.NewExpressionParser()
			wantC := safeObs(func() string { return obs(pf, pf.ParseString(composed)) })
			gotC := safeObs(func() string { return obs(p2, p2.ParseString(composed)) })
			if gotC != wantC {
				c.Violation("entry-point-differs:ParseString-after-ParseTokens", "expression %q: after ParseTokens the same parser given its own composed text %q yields %s, a fresh parser yields %s", in, composed, gotC, wantC)
			}
		}
		p3 := parsers.NewExpressionParser()
		got = safeObs(func() string { return obs(p3, p3.SetExpression(in)) })
		if got != want {
			c.Violation("entry-point-differs:SetExpression", "expression %q: parser.SetExpression gives %s, ParseString gives %s", in, got, want)
		}
		// calculator constructors
		c1 := calculator.NewExpressionCalculator()
		e1 := c1.SetExpression(in)
		w2 := safeObs(func() string {
			v, e := c1.Evaluate()
			return fmt.Sprintf("set=%s result=[%s] eval=%s/%s", errStr(e1), exprTokensStr(c1.ResultTokens()), variantStr(v), errStr(e))
		})
		g2 := safeObs(func() string {
			c2, e2 := calculator.ExpressionCalculatorFromExpression(in)
			v, e := c2.Evaluate()
			return fmt.Sprintf("set=%s result=[%s] eval=%s/%s", errStr(e2), exprTokensStr(c2.ResultTokens()), variantStr(v), errStr(e))
		})
		if g2 != w2 {
			c.Violation("entry-point-differs:ExpressionCalculatorFromExpression", "expression %q: constructor gives %s, SetExpression gives %s", in, g2, w2)
		}
		if e1 == nil && len(c1.OriginalTokens()) > 0 {
			g3 := safeObs(func() string {
				c3 := calculator.ExpressionCalculatorFromTokens(c1.OriginalTokens())
				v, e := c3.Evaluate()
				return fmt.Sprintf("set=nil result=[%s] eval=%s/%s", exprTokensStr(c3.ResultTokens()), variantStr(v), errStr(e))
			})
			if g3 != w2 {
				c.Violation("entry-point-differs:ExpressionCalculatorFromTokens", "expression %q: FromTokens gives %s, SetExpression gives %s", in, g3, w2)
			}
		}
		// Clear() returns the instance to the fresh state
		c4 := calculator.NewExpressionCalculator()
		g4 := safeObs(func() string {
			c4.SetExpression("zz + qq * 2")
			c4.Clear()
			if c4.DefaultVariables().Length() != 0 || len(c4.ResultTokens()) != 0 {
				return "Clear() left state behind"
			}
			e4 := c4.SetExpression(in)
			v, e := c4.Evaluate()
			return fmt.Sprintf("set=%s result=[%s] eval=%s/%s", errStr(e4), exprTokensStr(c4.ResultTokens()), variantStr(v), errStr(e))
		})
		if g4 != w2 {
			c.Violation("entry-point-differs:Clear", "expression %q after Clear(): %s, fresh instance: %s", in, g4, w2)
		}
	case "template":
		t1 := mustache.NewMustacheTemplate()
		var e1 error
		if pv := fw.Try(func() { e1 = t1.SetTemplate(in) }); pv != nil {
			return // C03
		}
		vars := map[string]string{"a": "v", "b": ""}
		want := safeObs(func() string {
			v, e := t1.EvaluateWithVariables(vars)
			return fmt.Sprintf("set=%s result=[%s] eval=%q/%s", errStr(e1), mustTokensStr(t1.ResultTokens()), v, errStr(e))
		})
		got := safeObs(func() string {
			t2, e2 := mustache.NewMustacheTemplateFromString(in)
			if t2 == nil {
				if e2 == nil {
					return "constructor returned (nil, nil)"
				}
				if e1 == nil {
					return "constructor failed: " + errStr(e2)
				}
				return want
			}
			v, e := t2.EvaluateWithVariables(vars)
			return fmt.Sprintf("set=%s result=[%s] eval=%q/%s", errStr(e2), mustTokensStr(t2.ResultTokens()), v, errStr(e))
		})
		if got != want {
			c.Violation("entry-point-differs:NewMustacheTemplateFromString", "template %q: constructor gives %s, SetTemplate gives %s", in, got, want)
		}
		if e1 == nil && len(t1.OriginalTokens()) > 0 {
			got = safeObs(func() string {
				t3 := mustache.NewMustacheTemplate()
				e3 := t3.SetOriginalTokens(t1.OriginalTokens())
				v, e := t3.EvaluateWithVariables(vars)
				return fmt.Sprintf("set=%s result=[%s] eval=%q/%s", errStr(e3), mustTokensStr(t3.ResultTokens()), v, errStr(e))
			})
			if got != want {
				c.Violation("entry-point-differs:SetOriginalTokens", "template %q: SetOriginalTokens(OriginalTokens()) gives %s, SetTemplate gives %s", in, got, want)
			}
		}
		got = safeObs(func() string {
			t4 := mustache.NewMustacheTemplate()
			t4.SetTemplate("{{zz}}{{#qq}}x{{/qq}}")
			t4.Clear()
			if len(t4.DefaultVariables()) != 0 || len(t4.ResultTokens()) != 0 {
				return "Clear() left state behind"
			}
			e4 := t4.SetTemplate(in)
			v, e := t4.EvaluateWithVariables(vars)
			return fmt.Sprintf("set=%s result=[%s] eval=%q/%s", errStr(e4), mustTokensStr(t4.ResultTokens()), v, errStr(e))
		})
		if got != want {
			c.Violation("entry-point-differs:template-Clear", "template %q after Clear(): %s, fresh: %s", in, got, want)
		}
	default: // tokenizers: the ...ToStrings entry points
		for _, o := range []int{0, optSkipWhitespaces | optSkipComments | optSkipEof | optDecode} {
			t := newTokenizer(kind)
			setOptions(t, o)
			var toks []*tokenizers.Token
			var strs, strs2 []string
			if pv := fw.Try(func() {
				toks = t.TokenizeBuffer(in)
				strs = t.TokenizeBufferToStrings(in)
				strs2 = t.TokenizeStreamToStrings(rio.NewStringScanner(in))
			}); pv != nil {
				continue // C03
			}
			vals := []string{}
			for _, tk := range toks {
				vals = append(vals, tk.Value())
			}
			if fmt.Sprintf("%q", vals) != fmt.Sprintf("%q", strs) || fmt.Sprintf("%q", vals) != fmt.Sprintf("%q", strs2) {
				c.Violation("entry-point-differs:ToStrings:"+kind, "%s tokenizer %s, input %q: TokenizeBuffer values %q, TokenizeBufferToStrings %q, TokenizeStreamToStrings %q", kind, optStr(o), in, vals, strs, strs2)
			}
		}
	}
}

// ---- one compiled program evaluated under changing variable values ("under the same variable values"
// the value must equal a fresh instance's): histories of evaluation and variable-replacement steps

var c05VarExprs = []string{"a", "a + b", "b - a * c", "a = 1 AND b = 2", "1 + 2", "A", "Max(a, b)", "a IS NULL", "zz",
	// constants of the compiled program next to a variable in every argument position of the selecting functions
	"Max(1, a)", "Min(60, a)", "Min(a, 60)", "Max(8, a, 12)", "If(a > 50, 1, a)", "Choose(2, 1, a)", "Sum(1, a)", "[1, a][0]", "a IN [9, 55, a]"}

var c05VarOps = []string{"Evaluate()", "EvaluateUsingVariables(A)", "EvaluateUsingVariables(B)", "EvaluateUsingVariables(empty)", "EvaluateUsingVariablesAndFunctions(B,default)",
	"A: remove a, add a=100", "A: a.SetValue(55)", "defaults: remove a, add a=7", "defaults: a.SetValue(9)", "defaults: Clear()"}

type c05VarWorld struct {
	calc *calculator.ExpressionCalculator
	a, b variables.IVariableCollection
}

func c05NewVarWorld(expr string) (*c05VarWorld, error) {
	w := &c05VarWorld{calc: calculator.NewExpressionCalculator(), a: c05Vars(), b: variables.NewVariableCollection()}
	w.b.Add(variables.NewVariable("c", variants.VariantFromInteger(30)))
	w.b.Add(variables.NewVariable("a", variants.VariantFromInteger(10)))
	w.b.Add(variables.NewVariable("b", variants.VariantFromInteger(20)))
	return w, w.calc.SetExpression(expr)
}

// apply runs one step; evaluation steps return the observation, replacement steps return "".
// evaluate=false skips evaluation steps (used to rebuild the variable values on a fresh instance).
func (w *c05VarWorld) apply(op int, evaluate bool) string {
	obs := func(f func() (*variants.Variant, error)) string {
		if !evaluate {
			return ""
		}
		return safeObs(func() string { v, e := f(); return variantStr(v) + "/" + errStr(e) })
	}
	replace := func(vc variables.IVariableCollection, val int) {
		vc.RemoveByName("a")
		vc.Add(variables.NewVariable("a", variants.VariantFromInteger(val)))
	}
	set := func(vc variables.IVariableCollection, val int) {
		if v := vc.FindByName("a"); v != nil {
			v.SetValue(variants.VariantFromInteger(val))
		}
	}
	switch op {
	case 0:
		return obs(func() (*variants.Variant, error) { return w.calc.Evaluate() })
	case 1:
		return obs(func() (*variants.Variant, error) { return w.calc.EvaluateUsingVariables(w.a) })
	case 2:
		return obs(func() (*variants.Variant, error) { return w.calc.EvaluateUsingVariables(w.b) })
	case 3:
		return obs(func() (*variants.Variant, error) {
			return w.calc.EvaluateUsingVariables(variables.NewVariableCollection())
		})
	case 4:
		return obs(func() (*variants.Variant, error) {
			return w.calc.EvaluateUsingVariablesAndFunctions(w.b, w.calc.DefaultFunctions())
		})
	case 5:
		replace(w.a, 100)
	case 6:
		set(w.a, 55)
	case 7:
		replace(w.calc.DefaultVariables(), 7)
	case 8:
		set(w.calc.DefaultVariables(), 9)
	case 9:
		w.calc.DefaultVariables().Clear()
	}
	return ""
}

func c05VarHistory(c *fw.Ctx, expr string, seq []int) {
	w, err := c05NewVarWorld(expr)
	if err != nil {
		c.Outcome("expression-rejected")
		return
	}
	hist := []string{}
	evals := 0
	for k, op := range seq {
		got := w.apply(op, true)
		if got != "" {
			// fresh calculator and fresh collections that went through the replacement steps only
			f, _ := c05NewVarWorld(expr)
			for _, prev := range seq[:k] {
				f.apply(prev, false)
			}
			want := f.apply(op, true)
			c.Eval(2)
			evals++
			if got != want {
				c.Violation("value-depends-on-earlier-evaluations:ExpressionCalculator", "calculator for %q after [%s]: %s = %s, a fresh calculator under the same variable values gives %s", expr, strings.Join(hist, "; "), c05VarOps[op], got, want)
				return
			}
		}
		hist = append(hist, c05VarOps[op])
	}
	if evals >= 2 {
		c.Nontrivial()
	}
	c.Outcome(fmt.Sprintf("evaluations=%d", evals))
}

func init() {
	fw.Register(&fw.Check{
		ID:    "C05",
		Level: "model_checking",
		// the first fresh-instance observation per input is the pristine reference: the hostile neighbour
		// (decoy.go) only starts after the first cases of a shard have pinned them
		LateNeighbour: true,
		Rule: "(also: has-next patterns on a generic tokenizer whose symbols carry token types of the user's choice, an end marker among them; programs with constants next to variables in every argument position of the selecting functions) explicit operation histories on ONE real instance of each of 16 object kinds (an expression tokenizer under an alternating exported keyword list, a CSV tokenizer with a separator above U+00FF, an ExpressionCalculator cleared after every input with valued automatic variables, 4 tokenizers x {no options, parser options}, ExpressionParser, ExpressionCalculator, MustacheParser, MustacheTemplate, MustacheTemplate cleared after every input and rendering with one caller-owned map): every ordered pair (thorough: triple) of inputs from a pool with every registered multi-character symbol alone and next to its siblings, every token class, unterminated literals, malformed programs; " +
			"after each step the full observation (tokens with positions / compiled program, variable names, error, values under two variable sets / rendering) must equal a freshly constructed instance's; plus every aborted iteration (SetReader, k fetches, abandon) followed by every input, and every pattern in {0,1,2}^m of HasNextToken queries before each fetch; the alternate entry points (ParseTokens / SetOriginalTokens on the instance's own token list, the ...FromExpression / FromTokens / FromString constructors, Clear(), the ...ToStrings tokenizer calls) must give what the main entry point gives on a fresh instance; a new instance must be unaffected after every slice/map handed out by another instance's getters was overwritten and its collections and states were cleared (and, throughout, by whatever this process did before: the fresh-instance observation per input is pinned the first time it is made); one compiled expression under every history of <=3 (thorough 5) steps out of 5 evaluation calls (default variables, two collections, an empty one, explicit functions) and 5 variable replacements (remove+add, SetValue, Clear on a supplied collection and on the defaults), every value compared with a fresh calculator whose variables went through the replacements only; non-trivial = histories of >=2 steps",
		Assume: []string{"an outcome that is identical on the fresh instance (including a panic) is not a history effect and is left to C03"},
		Spaces: func(tier string) []fw.Space {
			objs := c05Objects()
			sp := []fw.Space{}
			depth := 2
			if tier == "thorough" {
				depth = 3
			}
			for _, ob := range objs {
				ob := ob
				skip, n := countSeqRange(len(ob.pool), depth, depth)
				sp = append(sp, fw.Space{Name: "seq:" + ob.name, N: n,
					Run: func(c *fw.Ctx, i int64) { c05RunSeq(c, ob, seqByIndex(len(ob.pool), skip+i)) },
					Repr: func(i int64) string {
						s := []string{}
						for _, k := range seqByIndex(len(ob.pool), skip+i) {
							s = append(s, fmt.Sprintf("%q", ob.pool[k]))
						}
						return ob.name + " fed " + strings.Join(s, " then ")
					}})
			}
			for _, ob := range objs {
				ob := ob
				sp = append(sp, fw.Space{Name: "scribbled-getters:" + ob.name, N: int64(len(ob.pool)),
					Run:  func(c *fw.Ctx, i int64) { c05Scribble(c, ob, ob.pool[i]) },
					Repr: func(i int64) string { return fmt.Sprintf("%s A fed %q, its getter results overwritten, then a new instance fed the same", ob.name, ob.pool[i]) }})
			}
			type ep struct{ kind, in string }
			eps := []ep{}
			for _, x := range c05ExprPool {
				eps = append(eps, ep{"expression", x})
			}
			for _, x := range c05TmplPool {
				eps = append(eps, ep{"template", x})
			}
			for _, kind := range tokKinds {
				for _, x := range c05TokPools[kind] {
					eps = append(eps, ep{kind, x})
				}
			}
			sp = append(sp, fw.Space{Name: "entry-points", N: int64(len(eps)),
				Run:  func(c *fw.Ctx, i int64) { c05EntryPoints(c, eps[i].kind, eps[i].in) },
				Repr: func(i int64) string { return fmt.Sprintf("alternate entry points, %s input %q", eps[i].kind, eps[i].in) }})
			vh := 3
			if tier == "thorough" {
				vh = 5
			}
			nvh := countStrings(len(c05VarOps), vh)
			sp = append(sp, fw.Space{Name: "same-program-changing-variables", N: nvh * int64(len(c05VarExprs)),
				Run: func(c *fw.Ctx, i int64) {
					c05VarHistory(c, c05VarExprs[i/nvh], seqByIndex(len(c05VarOps), i%nvh))
				},
				Repr: func(i int64) string {
					p := []string{}
					for _, k := range seqByIndex(len(c05VarOps), i%nvh) {
						p = append(p, c05VarOps[k])
					}
					return fmt.Sprintf("one calculator, expression %q compiled once: %s", c05VarExprs[i/nvh], strings.Join(p, "; "))
				}})
			parserOpts := optSkipWhitespaces | optSkipComments | optSkipEof | optDecode
			for _, kind := range tokKinds {
				kind := kind
				pool := c05TokPools[kind]
				for _, o := range []int{0, parserOpts} {
					o := o
					const maxK = 6
					n := int64(len(pool) * maxK * len(pool))
					sp = append(sp, fw.Space{Name: fmt.Sprintf("abort:%s%s", kind, optStr(o)), N: n,
						Run: func(c *fw.Ctx, i int64) {
							y := int(i) % len(pool)
							k := int(i) / len(pool) % maxK
							x := int(i) / len(pool) / maxK
							if c05Abort(c, kind, o, pool[x], k+1, pool[y]) {
								c.Nontrivial()
							}
						},
						Repr: func(i int64) string {
							y := int(i) % len(pool)
							k := int(i) / len(pool) % maxK
							x := int(i) / len(pool) / maxK
							return fmt.Sprintf("%s tokenizer %s: SetReader(%q), %d fetches, abandon, then %q", kind, optStr(o), pool[x], k+1, pool[y])
						}})
					sp = append(sp, fw.Space{Name: fmt.Sprintf("same-scanner:%s%s", kind, optStr(o)), N: int64(len(pool) * 4),
						Run:  func(c *fw.Ctx, i int64) { c05SameScanner(c, kind, o, pool[int(i)/4], int(i)%4) },
						Repr: func(i int64) string { return fmt.Sprintf("%s tokenizer %s: same scanner over %q re-used after %d fetches", kind, optStr(o), pool[int(i)/4], int(i)%4) }})
					m := 4
					if tier == "thorough" {
						m = 6
					}
					np := countStrings(3, m) - countStrings(3, m-1)
					sp = append(sp, fw.Space{Name: fmt.Sprintf("hasnext:%s%s", kind, optStr(o)), N: np * int64(len(pool)),
						Run: func(c *fw.Ctx, i int64) {
							in := pool[int(i%int64(len(pool)))]
							pat := seqByIndex(3, countStrings(3, m-1)+i/int64(len(pool)))
							c05HasNext(c, kind, o, in, pat)
						},
						Repr: func(i int64) string {
							return fmt.Sprintf("%s tokenizer %s, input %q, HasNextToken counts before fetches %v", kind, optStr(o), pool[int(i%int64(len(pool)))], seqByIndex(3, countStrings(3, m-1)+i/int64(len(pool))))
						}})
				}
			}
			// the same query patterns on a generic tokenizer whose symbols carry token types of the user's choice
			{
				kind := "generic+typedsym"
				pool := []string{"a;b", ";a", "a;", "a::b;c@@", ";;", "a $ b", "$;$", "a"}
				m := 4
				if tier == "thorough" {
					m = 6
				}
				np := countStrings(3, m) - countStrings(3, m-1)
				for _, o := range []int{0, optSkipWhitespaces | optSkipComments | optSkipEof | optDecode} {
					o := o
					sp = append(sp, fw.Space{Name: fmt.Sprintf("hasnext:%s%s", kind, optStr(o)), N: np * int64(len(pool)),
						Run: func(c *fw.Ctx, i int64) {
							c05HasNext(c, kind, o, pool[int(i%int64(len(pool)))], seqByIndex(3, countStrings(3, m-1)+i/int64(len(pool))))
						},
						Repr: func(i int64) string {
							return fmt.Sprintf("%s tokenizer %s, input %q, HasNextToken counts before fetches %v", kind, optStr(o), pool[int(i%int64(len(pool)))], seqByIndex(3, countStrings(3, m-1)+i/int64(len(pool))))
						}})
				}
			}
			return sp
		},
		Bounds: func(tier string) string {
			if tier == "thorough" {
				return "all ordered triples per object kind; aborts after 1..6 fetches; has-next patterns {0,1,2}^6"
			}
			return "all ordered pairs per object kind; aborts after 1..6 fetches; has-next patterns {0,1,2}^4"
		},
	})
}
