package checks

import (
	"fmt"
	"strings"

	"github.com/pip-services3-gox/pip-services3-expressions-gox/calculator/functions"
	"github.com/pip-services3-gox/pip-services3-expressions-gox/calculator/parsers"
	"github.com/pip-services3-gox/pip-services3-expressions-gox/calculator/variables"
	"github.com/pip-services3-gox/pip-services3-expressions-gox/variants"
)

// Reference model of the expression language: AST, printer (three styles),
// post-order compiler, independent recogniser over token sequences and a
// direct tree evaluator that applies the REAL variant operations node by node.

type enode struct {
	kind string // const | var | call | bin | post | not | neg | pos | idx
	op   string
	name string      // var / call
	cval interface{} // const payload: int, float32, string, bool
	ctxt string      // const source text
	kids []*enode
}

var binLevel = map[string]int{
	"AND": 0, "OR": 0, "XOR": 0,
	"=": 2, "<>": 2, "!=": 2, ">": 2, "<": 2, ">=": 2, "<=": 2,
	"+": 3, "-": 3, "LIKE": 3, "NOT LIKE": 3, "NOT IN": 3,
	"*": 4, "/": 4, "%": 4,
	"^": 5, "IN": 5, "<<": 5, ">>": 5,
}

var binOps = []string{"AND", "OR", "XOR", "=", "<>", "!=", ">", "<", ">=", "<=", "+", "-", "LIKE", "NOT LIKE", "NOT IN", "*", "/", "%", "^", "IN", "<<", ">>"}
var postOps = []string{"IS NULL", "IS NOT NULL"}

var binTokenType = map[string]int{
	"AND": parsers.And, "OR": parsers.Or, "XOR": parsers.Xor, "=": parsers.Equal, "<>": parsers.NotEqual, "!=": parsers.NotEqual,
	">": parsers.More, "<": parsers.Less, ">=": parsers.EqualMore, "<=": parsers.EqualLess, "+": parsers.Plus, "-": parsers.Minus,
	"LIKE": parsers.Like, "NOT LIKE": parsers.NotLike, "NOT IN": parsers.NotIn, "*": parsers.Star, "/": parsers.Slash, "%": parsers.Procent,
	"^": parsers.Power, "IN": parsers.In, "<<": parsers.ShiftLeft, ">>": parsers.ShiftRight,
}

func (n *enode) level() int {
	switch n.kind {
	case "bin":
		return binLevel[n.op]
	case "post":
		return 3
	case "not":
		return 1
	}
	return 6
}

func (n *enode) isPrim() bool { return n.kind == "const" || n.kind == "var" || n.kind == "call" }

func eConst(txt string, v interface{}) *enode { return &enode{kind: "const", ctxt: txt, cval: v} }
func eVar(name string) *enode                 { return &enode{kind: "var", name: name} }
func eBin(op string, l, r *enode) *enode      { return &enode{kind: "bin", op: op, kids: []*enode{l, r}} }
func ePost(op string, x *enode) *enode        { return &enode{kind: "post", op: op, kids: []*enode{x}} }
func eNot(x *enode) *enode                    { return &enode{kind: "not", kids: []*enode{x}} }
func eNeg(x *enode) *enode                    { return &enode{kind: "neg", kids: []*enode{x}} }
func eIdx(b, i *enode) *enode                 { return &enode{kind: "idx", kids: []*enode{b, i}} }
func eCall(name string, args ...*enode) *enode {
	return &enode{kind: "call", name: name, kids: args}
}

// ---- printing: a token list (so styles can decide on separators)

type printStyle struct {
	full    bool // parenthesise every operator node
	kwCase  int  // 0 upper, 1 lower, 2 mixed
	compact bool // no optional blanks, comments where a separator is required
}

func kw(s string, c int) string {
	switch c {
	case 1:
		return strings.ToLower(s)
	case 2:
		b := []byte(strings.ToLower(s))
		b[0] = byte(strings.ToUpper(string(b[0]))[0])
		return string(b)
	}
	return s
}

func (n *enode) tokens(st printStyle, out *[]string) {
	emit := func(s ...string) { *out = append(*out, s...) }
	paren := func(k *enode, need bool) {
		if need {
			emit("(")
			k.tokens(st, out)
			emit(")")
		} else {
			k.tokens(st, out)
		}
	}
	switch n.kind {
	case "const":
		emit(n.ctxt)
	case "var":
		emit(n.name)
	case "call":
		emit(n.name, "(")
		for i, a := range n.kids {
			if i > 0 {
				emit(",")
			}
			a.tokens(st, out)
		}
		emit(")")
	case "bin":
		l, r := n.kids[0], n.kids[1]
		lv := n.level()
		paren(l, st.full && !l.isPrim() || l.level() < lv)
		for _, w := range strings.Split(n.op, " ") {
			emit(kw(w, st.kwCase))
		}
		paren(r, st.full && !r.isPrim() || r.level() <= lv)
	case "post":
		x := n.kids[0]
		paren(x, st.full && !x.isPrim() || x.level() < 3)
		for _, w := range strings.Split(n.op, " ") {
			emit(kw(w, st.kwCase))
		}
	case "not":
		emit(kw("NOT", st.kwCase))
		x := n.kids[0]
		paren(x, st.full && !x.isPrim() || x.level() < 2)
	case "neg":
		emit("-")
		x := n.kids[0]
		paren(x, !x.isPrim())
	case "pos":
		emit("+")
		x := n.kids[0]
		paren(x, !x.isPrim())
	case "idx":
		b := n.kids[0]
		// -a[1] is (-a)[1]: sign, call and index share the top level
		if b.isPrim() || ((b.kind == "neg" || b.kind == "pos") && b.kids[0].isPrim()) {
			b.tokens(st, out)
		} else {
			emit("(")
			b.tokens(st, out)
			emit(")")
		}
		emit("[")
		n.kids[1].tokens(st, out)
		emit("]")
	}
}

func isWordTok(s string) bool {
	c := s[0]
	return c >= 'a' && c <= 'z' || c >= 'A' && c <= 'Z' || c >= '0' && c <= '9' || c == '_' || c == '.' || c == '"' || c == '\''
}

func joinTokens(toks []string, st printStyle) string {
	var sb strings.Builder
	for i, t := range toks {
		if i > 0 {
			prev := toks[i-1]
			if !st.compact {
				sb.WriteString(" ")
			} else if isWordTok(prev[len(prev)-1:]) && isWordTok(t) {
				sb.WriteString(compactComments[i%len(compactComments)])
			} else if sym2(prev, t) {
				sb.WriteString(" ")
			}
		}
		sb.WriteString(t)
	}
	return sb.String()
}

// comments used as separators in the compact printing style
var compactComments = []string{"/*c*/", "/***/", "/* x **/", "/**/", "/* a * b / c */", "/*\n*/"}

// sym2: would two symbol tokens merge when written without a separator?
func sym2(a, b string) bool {
	j := a + b
	for _, m := range []string{"<=", ">=", "<>", "!=", ">>", "<<", "/*", "//"} {
		if strings.Contains(j, m) && !strings.Contains(a, m) && !strings.Contains(b, m) {
			return true
		}
	}
	// "-" or "." before a digit, digit before "."
	if (a == "-" || a == "+") && false {
		return true
	}
	return false
}

func (n *enode) print(st printStyle) string {
	toks := []string{}
	n.tokens(st, &toks)
	if st.full && !n.isPrim() {
		toks = append(append([]string{"("}, toks...), ")")
	}
	return joinTokens(toks, st)
}

// ---- post-order (what the compiler must produce)

type rtok struct {
	typ  int
	sval string // variable / function name
	cval interface{}
}

func (r rtok) String() string {
	switch r.typ {
	case parsers.Constant:
		return fmt.Sprintf("Const(%#v)", r.cval)
	case parsers.Variable:
		return "Var(" + r.sval + ")"
	case parsers.Function:
		return "Func(" + r.sval + ")"
	}
	return fmt.Sprintf("Op%d", r.typ)
}

func (n *enode) postorder(out *[]rtok) {
	switch n.kind {
	case "const":
		*out = append(*out, rtok{typ: parsers.Constant, cval: n.cval})
	case "var":
		*out = append(*out, rtok{typ: parsers.Variable, sval: n.name})
	case "call":
		for _, a := range n.kids {
			a.postorder(out)
		}
		*out = append(*out, rtok{typ: parsers.Constant, cval: len(n.kids)}, rtok{typ: parsers.Function, sval: n.name})
	case "bin":
		n.kids[0].postorder(out)
		n.kids[1].postorder(out)
		*out = append(*out, rtok{typ: binTokenType[n.op]})
	case "post":
		n.kids[0].postorder(out)
		t := parsers.IsNull
		if n.op == "IS NOT NULL" {
			t = parsers.IsNotNull
		}
		*out = append(*out, rtok{typ: t})
	case "not":
		n.kids[0].postorder(out)
		*out = append(*out, rtok{typ: parsers.Not})
	case "neg":
		n.kids[0].postorder(out)
		*out = append(*out, rtok{typ: parsers.Unary})
	case "pos":
		n.kids[0].postorder(out)
	case "idx":
		n.kids[0].postorder(out)
		n.kids[1].postorder(out)
		*out = append(*out, rtok{typ: parsers.Element})
	}
}

func unquoteIdent(s string) string {
	if len(s) >= 2 && s[0] == '"' && s[len(s)-1] == '"' {
		return strings.ReplaceAll(s[1:len(s)-1], "\"\"", "\"")
	}
	return s
}

func postorderOf(n *enode) []rtok {
	out := []rtok{}
	n.postorder(&out)
	for i := range out {
		if out[i].typ == parsers.Variable || out[i].typ == parsers.Function {
			out[i].sval = unquoteIdent(out[i].sval)
		}
	}
	return out
}

// compare the real compiled program with a reference post-order
func sameProgram(real []*parsers.ExpressionToken, ref []rtok) string {
	if len(real) != len(ref) {
		return fmt.Sprintf("%d result tokens, expected %d", len(real), len(ref))
	}
	for i, t := range real {
		w := ref[i]
		if t.Type() != w.typ {
			return fmt.Sprintf("result token %d has type %d, expected %s", i, t.Type(), w)
		}
		switch w.typ {
		case parsers.Variable, parsers.Function:
			if t.Value() == nil || t.Value().Type() != variants.String || t.Value().AsString() != w.sval {
				return fmt.Sprintf("result token %d is %s, expected %s", i, variantStr(t.Value()), w)
			}
		case parsers.Constant:
			ok := false
			if v := t.Value(); v != nil {
				switch c := w.cval.(type) {
				case int:
					ok = v.Type() == variants.Integer && v.AsInteger() == c
				case float32:
					ok = v.Type() == variants.Float && v.AsFloat() == c
				case string:
					ok = v.Type() == variants.String && v.AsString() == c
				case bool:
					ok = v.Type() == variants.Boolean && v.AsBoolean() == c
				}
			}
			if !ok {
				return fmt.Sprintf("result token %d is %s, expected %s", i, variantStr(t.Value()), w)
			}
		}
	}
	return ""
}

func programStr(real []*parsers.ExpressionToken) string {
	p := []string{}
	for _, t := range real {
		switch t.Type() {
		case parsers.Constant:
			p = append(p, "Const("+variantStr(t.Value())+")")
		case parsers.Variable:
			p = append(p, "Var("+variantStr(t.Value())+")")
		case parsers.Function:
			p = append(p, "Func("+variantStr(t.Value())+")")
		default:
			p = append(p, fmt.Sprintf("Op%d", t.Type()))
		}
	}
	return strings.Join(p, " ")
}

func rtokStr(ref []rtok) string {
	p := []string{}
	for _, r := range ref {
		p = append(p, r.String())
	}
	return strings.Join(p, " ")
}

// ---- recogniser over token sequences (independent recursive descent)

type vtok struct {
	text string
	kind string // CONST IDENT ( ) [ ] , + - * / % ^ CMP SHIFT AND OR XOR NOT IS IN NULL LIKE UNKNOWN
	cval interface{}
}

var exprVocab = []vtok{
	{"1", "CONST", 1}, {"2.5", "CONST", float32(2.5)}, {"'x'", "CONST", "x"}, {"'1'", "CONST", "1"}, {"TRUE", "CONST", true}, {"FALSE", "CONST", false},
	{"a", "IDENT", nil}, {"\"q\"", "IDENT", nil}, {"\"and\"", "IDENT", nil}, {"\"NULL\"", "IDENT", nil}, {"\"(\"", "IDENT", nil},
	{"(", "(", nil}, {")", ")", nil}, {"[", "[", nil}, {"]", "]", nil}, {",", ",", nil},
	{"+", "+", nil}, {"-", "-", nil}, {"*", "MUL", nil}, {"/", "MUL", nil}, {"%", "MUL", nil}, {"^", "POW", nil},
	{"=", "CMP", nil}, {"<>", "CMP", nil}, {"!=", "CMP", nil}, {">", "CMP", nil}, {"<", "CMP", nil}, {">=", "CMP", nil}, {"<=", "CMP", nil},
	{"<<", "POW", nil}, {">>", "POW", nil},
	{"AND", "LOGIC", nil}, {"OR", "LOGIC", nil}, {"XOR", "LOGIC", nil}, {"NOT", "NOT", nil}, {"IS", "IS", nil}, {"IN", "IN", nil}, {"NULL", "NULL", nil}, {"LIKE", "LIKE", nil},
	{"@", "UNKNOWN", nil},
}

var exprVocabSmall []vtok // representative alphabet R

func init() {
	for _, t := range []string{"1", "a", "(", ")", "[", "]", ",", "+", "-", "*", "^", "=", "AND", "NOT", "IS", "IN", "NULL", "LIKE"} {
		for _, v := range exprVocab {
			if v.text == t {
				exprVocabSmall = append(exprVocabSmall, v)
			}
		}
	}
}

type recog struct {
	toks    []vtok
	pos     int
	lenient bool // accept a trailing comma in an argument list
	usedLen bool
}

func (r *recog) peek() *vtok {
	if r.pos < len(r.toks) {
		return &r.toks[r.pos]
	}
	return nil
}
func (r *recog) peekAt(k int) *vtok {
	if r.pos+k < len(r.toks) {
		return &r.toks[r.pos+k]
	}
	return nil
}
func (r *recog) isKind(k int, kind string) bool {
	t := r.peekAt(k)
	return t != nil && t.kind == kind
}

func (r *recog) e0() *enode {
	l := r.e1()
	for l != nil && r.isKind(0, "LOGIC") {
		op := r.peek().text
		r.pos++
		rt := r.e1()
		if rt == nil {
			return nil
		}
		l = eBin(op, l, rt)
	}
	return l
}
func (r *recog) e1() *enode {
	if r.isKind(0, "NOT") {
		r.pos++
		x := r.e2()
		if x == nil {
			return nil
		}
		return eNot(x)
	}
	return r.e2()
}
func (r *recog) e2() *enode {
	l := r.e3()
	for l != nil && r.isKind(0, "CMP") {
		op := r.peek().text
		r.pos++
		rt := r.e3()
		if rt == nil {
			return nil
		}
		l = eBin(op, l, rt)
	}
	return l
}
func (r *recog) e3() *enode {
	l := r.e4()
	for l != nil {
		switch {
		case r.isKind(0, "+") || r.isKind(0, "-") || r.isKind(0, "LIKE"):
			op := r.peek().text
			r.pos++
			rt := r.e4()
			if rt == nil {
				return nil
			}
			l = eBin(op, l, rt)
		case r.isKind(0, "NOT") && r.isKind(1, "LIKE"), r.isKind(0, "NOT") && r.isKind(1, "IN"):
			op := "NOT " + r.peekAt(1).text
			r.pos += 2
			rt := r.e4()
			if rt == nil {
				return nil
			}
			l = eBin(op, l, rt)
		case r.isKind(0, "IS") && r.isKind(1, "NULL"):
			r.pos += 2
			l = ePost("IS NULL", l)
		case r.isKind(0, "IS") && r.isKind(1, "NOT") && r.isKind(2, "NULL"):
			r.pos += 3
			l = ePost("IS NOT NULL", l)
		default:
			return l
		}
	}
	return l
}
func (r *recog) e4() *enode {
	l := r.e5()
	for l != nil && r.isKind(0, "MUL") {
		op := r.peek().text
		r.pos++
		rt := r.e5()
		if rt == nil {
			return nil
		}
		l = eBin(op, l, rt)
	}
	return l
}
func (r *recog) e5() *enode {
	l := r.e6()
	for l != nil && (r.isKind(0, "POW") || r.isKind(0, "IN")) {
		op := r.peek().text
		r.pos++
		rt := r.e6()
		if rt == nil {
			return nil
		}
		l = eBin(op, l, rt)
	}
	return l
}
func (r *recog) e6() *enode {
	sign := ""
	if r.isKind(0, "+") || r.isKind(0, "-") {
		sign = r.peek().text
		r.pos++
	}
	t := r.peek()
	if t == nil {
		return nil
	}
	var p *enode
	switch {
	case t.kind == "CONST":
		r.pos++
		p = eConst(t.text, t.cval)
	case t.kind == "IDENT" && r.isKind(1, "("):
		r.pos += 2
		args := []*enode{}
		if r.isKind(0, ")") {
			r.pos++
		} else {
			for {
				a := r.e0()
				if a == nil {
					return nil
				}
				args = append(args, a)
				if r.isKind(0, ",") {
					r.pos++
					if r.lenient && r.isKind(0, ")") {
						r.usedLen = true
						r.pos++
						break
					}
					continue
				}
				if r.isKind(0, ")") {
					r.pos++
					break
				}
				return nil
			}
		}
		p = eCall(t.text, args...)
	case t.kind == "IDENT":
		r.pos++
		p = eVar(t.text)
	case t.kind == "(":
		r.pos++
		in := r.e0()
		if in == nil || !r.isKind(0, ")") {
			return nil
		}
		r.pos++
		p = in
		if !p.isPrim() {
			p = &enode{kind: "grp", kids: []*enode{in}}
		}
	default:
		return nil
	}
	if sign == "-" {
		p = eNeg(p)
	} else if sign == "+" {
		p = &enode{kind: "pos", kids: []*enode{p}}
	}
	if r.isKind(0, "[") {
		r.pos++
		ix := r.e0()
		if ix == nil || !r.isKind(0, "]") {
			return nil
		}
		r.pos++
		p = eIdx(p, ix)
	}
	return p
}

// stripGroups removes the explicit parenthesis marker nodes.
func stripGroups(n *enode) *enode {
	if n == nil {
		return nil
	}
	if n.kind == "grp" {
		return stripGroups(n.kids[0])
	}
	for i, k := range n.kids {
		n.kids[i] = stripGroups(k)
	}
	return n
}

// recognise classifies a token sequence: "accept" (tree), "reject" or "unspecified".
func recognise(toks []vtok) (string, *enode) {
	r := &recog{toks: toks}
	if t := r.e0(); t != nil && r.pos == len(toks) {
		return "accept", stripGroups(t)
	}
	r = &recog{toks: toks, lenient: true}
	if t := r.e0(); t != nil && r.pos == len(toks) {
		return "unspecified", stripGroups(t)
	}
	// a lenient prefix could also change where the strict parse fails; whole-sequence result is what counts
	return "reject", nil
}

// fix the "grp" kind for level()/isPrim(): groups behave like primaries until stripped
func init() {
	_ = functions.NewFunctionCollection
	_ = variables.NewVariableCollection
}

// ---- direct tree evaluation with the REAL operations object

type evalEnv struct {
	ops   variants.IVariantOperations
	vars  variables.IVariableCollection
	funcs functions.IFunctionCollection
}

// evalTree returns (value, "") or (nil, reason). reason "open" means the outcome is unspecified.
func evalTree(n *enode, env *evalEnv) (*variants.Variant, string) {
	switch n.kind {
	case "const":
		switch c := n.cval.(type) {
		case int:
			return variants.VariantFromInteger(c), ""
		case float32:
			return variants.VariantFromFloat(c), ""
		case string:
			return variants.VariantFromString(c), ""
		case bool:
			return variants.VariantFromBoolean(c), ""
		}
		return nil, "bad const"
	case "var":
		// the reference resolves a name itself: the first entry, in the order of addition, whose name
		// matches without regard to letter case
		want := strings.ToUpper(unquoteIdent(n.name))
		for _, v := range env.vars.GetAll() {
			if v != nil && strings.ToUpper(v.Name()) == want {
				return v.Value(), ""
			}
		}
		return nil, "error:VAR_NOT_FOUND"
	case "call":
		args := []*variants.Variant{}
		for _, k := range n.kids {
			a, e := evalTree(k, env)
			if e != "" {
				return nil, e
			}
			args = append(args, a)
		}
		f := env.funcs.FindByName(unquoteIdent(n.name))
		if f == nil {
			return nil, "error:FUNC_NOT_FOUND"
		}
		r, err := f.Calculate(args, env.ops)
		if err != nil {
			return nil, "error:" + err.Error()
		}
		if r == nil {
			return nil, "open"
		}
		return r, ""
	case "not", "neg", "pos", "post":
		x, e := evalTree(n.kids[0], env)
		if e != "" {
			return nil, e
		}
		var r *variants.Variant
		var err error
		switch n.kind {
		case "pos":
			return x, ""
		case "not":
			r, err = env.ops.Not(x)
		case "neg":
			r, err = env.ops.Negative(x)
		case "post":
			return variants.VariantFromBoolean(x.IsNull() == (n.op == "IS NULL")), ""
		}
		if err != nil {
			return nil, "error:" + err.Error()
		}
		return r, ""
	case "idx":
		b, e := evalTree(n.kids[0], env)
		if e != "" {
			return nil, e
		}
		i, e := evalTree(n.kids[1], env)
		if e != "" {
			return nil, e
		}
		r, err := env.ops.GetElement(b, i)
		if err != nil {
			return nil, "error:" + err.Error()
		}
		return r, ""
	case "bin":
		l, e := evalTree(n.kids[0], env)
		if e != "" {
			return nil, e
		}
		rr, e := evalTree(n.kids[1], env)
		if e != "" {
			return nil, e
		}
		var r *variants.Variant
		var err error
		switch n.op {
		case "LIKE", "NOT LIKE":
			return nil, "error:LIKE has no variant operation"
		case "IN":
			r, err = env.ops.In(rr, l)
		case "NOT IN":
			r, err = env.ops.In(rr, l)
			if err == nil {
				if r == nil || r.Type() != variants.Boolean {
					return nil, "open"
				}
				r = variants.VariantFromBoolean(!r.AsBoolean())
			}
		default:
			name := map[string]string{"AND": "And", "OR": "Or", "XOR": "Xor", "=": "Equal", "<>": "NotEqual", "!=": "NotEqual", ">": "More", "<": "Less", ">=": "MoreEqual", "<=": "LessEqual",
				"+": "Add", "-": "Sub", "*": "Mul", "/": "Div", "%": "Mod", "^": "Pow", "<<": "Lsh", ">>": "Rsh"}[n.op]
			r, err = callBinary(env.ops, name, l, rr)
		}
		if err != nil {
			return nil, "error:" + err.Error()
		}
		return r, ""
	}
	return nil, "bad node " + n.kind
}
