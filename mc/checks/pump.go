package checks

import (
	"strings"
	"sort"
	"unicode"
)

// "Pumped" and "character sweep" families: bounded exhaustive enumeration along
// one extra dimension. Small-scope strings decide input shape; these families
// take every short pattern and (a) repeat it k times for every k in a list of
// sizes around the usual thresholds (powers of two +-1, 100, 1000), (b) put
// every character of a boundary set into every short context. The oracles are
// the same reference models, which handle any length.

var pumpCounts = []int{2, 3, 4, 5, 7, 8, 9, 15, 16, 17, 31, 32, 33, 63, 64, 65, 100, 127, 128, 129, 255, 256, 257, 1000}
var pumpCountsSmall = []int{2, 3, 5, 8, 9, 16, 17, 33, 64, 65, 129, 256, 257}

// boundaryChars: one or two characters on each side of every boundary the code (or any
// plausible rewrite of it) distinguishes: C0 controls, the ASCII classes, Latin-1,
// the 0xFF/0x100 table boundary, general punctuation, ideographic space, the BMP
// end (0xFFFD..0xFFFF), the first astral characters and the last code point; init() adds aliases modulo 2^8 / 2^16.
var boundaryChars = []rune{0x0, 0x1, 0x8, '\t', '\n', 0xb, 0xc, '\r', 0x1f, ' ', '!', '"', '#', '\'', '*', '+', ',', '-', '.', '/', '0', '9', ':', ';', '<', '=', '>', '?', '@', 'A', 'E', 'Z', '[', '\\', ']', '^', '_', '`', 'a', 'e', 'z', '{', '|', '}', '~',
	0x7f, 0x80, 0x9f, 0xa0, 0xbf, 0xc0, 0xd7, 0xf7, 0xff, 0x100, 0x101, 0x17f, 0x2ff, 0x300, 0x3a9, 0x42f, 0x2000, 0x2028, 0x2029, 0x201c, 0x201d, 0x2192, 0x3000, 0x4e2d, 0xd7ff, 0xe000, 0xfeff, 0xfffc, 0xfffd, 0xfffe, 0xffff, 0x10000, 0x1f600, 0xe0001, 0x10ffff}

// aliases: characters that equal a syntactically important ASCII character modulo 2^8 or 2^16
// (what a narrowing conversion or a table index modulo the table size would confuse them with)
func init() {
	for _, c := range []rune{'<', '=', '>', '!', '{', '}', '/', '*', '"', '\'', ',', 'a', '0', ' ', '\n', '-', '.', '#', ';'} {
		boundaryChars = append(boundaryChars, 0x100+c, 0x10000+c)
	}
	boundaryChars = append(boundaryChars, 0x2000+'=', 0x20000+'<', 0x100000+'{')
	// and the first and last character of every Unicode general category not already present
	have := map[rune]bool{}
	for _, c := range boundaryChars {
		have[c] = true
	}
	for _, c := range categoryChars {
		if !have[c] {
			boundaryChars = append(boundaryChars, c)
		}
	}
}

// categoryChars: the first and the last character of every Unicode general category, its first character past U+00FF and its last one up to U+FFFE (a rule that
// singles out a class of characters - marks, format characters, separators, digits of another
// script - shows on one of these), sorted, without duplicates
var categoryChars = func() []rune {
	seen := map[rune]bool{}
	out := []rune{}
	names := []string{}
	for name := range unicode.Categories {
		if len(name) == 2 {
			names = append(names, name)
		}
	}
	sort.Strings(names)
	for _, name := range names {
		t := unicode.Categories[name]
		// first, last, the first one past Latin-1 and the last one the character tables can hold
		var first, last, firstWide, lastBMP rune = -1, -1, -1, -1
		see := func(lo, hi rune) {
			if first < 0 {
				first = lo
			}
			last = hi
			if firstWide < 0 && hi > 0xff {
				firstWide = lo
				if firstWide <= 0xff {
					firstWide = 0x100
				}
			}
			if lo <= 0xfffe {
				lastBMP = hi
				if lastBMP > 0xfffe {
					lastBMP = 0xfffe
				}
			}
		}
		for _, r := range t.R16 {
			see(rune(r.Lo), rune(r.Hi))
		}
		for _, r := range t.R32 {
			see(rune(r.Lo), rune(r.Hi))
		}
		for _, ch := range []rune{first, last, firstWide, lastBMP} {
			if ch >= 0 && !seen[ch] && !(ch >= 0xd800 && ch <= 0xdfff) {
				seen[ch] = true
				out = append(out, ch)
			}
		}
	}
	return out
}()

func pumped(pattern string, k int) string { return strings.Repeat(pattern, k) }

// contexts: all (prefix, suffix) pairs with |prefix|,|suffix| <= n over alpha
func contextsCount(alpha []rune, n int) int64 {
	c := countStrings(len(alpha), n)
	return c * c
}

func contextByIndex(alpha []rune, n int, i int64) (string, string) {
	c := countStrings(len(alpha), n)
	return stringByIndex(alpha, i/c), stringByIndex(alpha, i%c)
}

// widthCounts: sizes for "width pumps" - families whose k-th member has k DISTINCT parts (k different
// variable names, list elements, separators, registered symbols, call arguments), as opposed to one
// short pattern repeated k times. Around the usual thresholds of small-collection special cases.
// hugeCounts: sizes next to the 16-bit boundary, for a handful of patterns per family
// (a count, offset or coordinate kept in a narrow integer wraps here)
var hugeCounts = []int{65535, 65536, 65537}

var widthCounts = []int{4, 7, 8, 9, 10, 15, 16, 17, 18, 31, 32, 33, 63, 64, 65, 100, 129}
var widthCountsSmall = []int{8, 9, 10, 16, 17, 33, 65}

// distinctNames returns k different identifiers (v1..vk), rotated by `from` so that the same name
// can sit at different positions of two lists
func distinctNames(k int, from int) []string {
	out := make([]string, k)
	for i := range out {
		out[i] = "v" + itoa((i+from)%k+1)
	}
	return out
}

func itoa(n int) string {
	if n == 0 {
		return "0"
	}
	s := ""
	for n > 0 {
		s = string(rune('0'+n%10)) + s
		n /= 10
	}
	return s
}

// wideSum builds v1 + v2 + ... over the given names (left chain, as the grammar parses it)
func wideSum(names []string) *enode {
	t := eVar(names[0])
	for _, n := range names[1:] {
		t = eBin("+", t, eVar(n))
	}
	return t
}
