package checks

import (
	"hash/adler32"
	"hash/crc32"
	"hash/fnv"
	"sync"
)

// Pairs of different strings that collide under the hash functions a maintainer would reach for:
// the "same value in another representation" family for code that remembers things by a hash.
// The pairs were found once by enumerating decimal numbers (and two-letter classics for the
// multiplicative hashes); every pair is re-verified against the hash function at first use and
// dropped if it does not collide (so a wrong entry can only shrink the family).

type twinPair struct{ hash, a, b string }

var (
	twinsOnce  sync.Once
	twinsDigit []twinPair // decimal numbers
	twinsIdent []twinPair // identifiers
)

func twinHashes() map[string]func(string) uint32 {
	return map[string]func(string) uint32{
		"fnv32a":  func(s string) uint32 { h := fnv.New32a(); h.Write([]byte(s)); return h.Sum32() },
		"fnv32":   func(s string) uint32 { h := fnv.New32(); h.Write([]byte(s)); return h.Sum32() },
		"crc32c":  func(s string) uint32 { return crc32.Checksum([]byte(s), crc32.MakeTable(crc32.Castagnoli)) },
		"adler32": func(s string) uint32 { return adler32.Checksum([]byte(s)) },
		"djb2": func(s string) uint32 {
			h := uint32(5381)
			for i := 0; i < len(s); i++ {
				h = h*33 + uint32(s[i])
			}
			return h
		},
		"java31": func(s string) uint32 {
			h := uint32(0)
			for i := 0; i < len(s); i++ {
				h = h*31 + uint32(s[i])
			}
			return h
		},
	}
}

func findTwins() {
	hs := twinHashes()
	for _, p := range []twinPair{
		{"fnv32a", "1562789", "1779192"}, {"fnv32a", "40189", "797186"},
		{"fnv32", "479598", "662383"}, {"crc32c", "1371838", "2000402"}, {"adler32", "1000020", "1000101"},
	} {
		if hs[p.hash](p.a) == hs[p.hash](p.b) && p.a != p.b {
			twinsDigit = append(twinsDigit, p)
		}
	}
	for _, p := range []twinPair{
		{"java31", "vAa", "vBB"}, {"djb2", "vAb", "vBA"}, {"adler32", "vaaaca", "vaabab"}, {"java31", "xAaAa", "xBBBB"},
	} {
		if hs[p.hash](p.a) == hs[p.hash](p.b) && p.a != p.b {
			twinsIdent = append(twinsIdent, p)
		}
	}
}

func digitTwins() []twinPair { twinsOnce.Do(findTwins); return twinsDigit }
func identTwins() []twinPair { twinsOnce.Do(findTwins); return twinsIdent }
