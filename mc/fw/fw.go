// Package fw is the exploration engine shared by all checks: index-addressable
// case spaces, a pool of watchdogged worker subprocesses, violation
// de-duplication / re-execution, known-findings handling and evidence output.
package fw

import (
	"fmt"
	"sort"
	"sync"
	"time"
)

// Space is a finite, index-addressable set of cases. Every index in [0,N) is
// one case; Run executes it against the real implementation and reports
// through the Ctx. Cases are ordered shortest/simplest first so that the
// smallest index with a given signature is the minimal witness.
type Space struct {
	Name    string
	N       int64
	Run     func(c *Ctx, i int64)
	Repr    func(i int64) string
	Timeout time.Duration // per-case watchdog (default 20s)
}

// Check is one property's machinery.
type Check struct {
	// LateNeighbour: do not run BetweenCases at process start, only between cases (for checks whose
	// oracle pins the first observation made in the process as the pristine one)
	LateNeighbour bool
	ID            string
	Level         string // evidence level
	Rule          string // how cases are enumerated, what non-trivial means
	Assume        []string
	// Spaces builds the spaces for a tier ("quick" | "thorough").
	Spaces func(tier string) []Space
	// Bounds describes the completed bound per tier (free text for evidence).
	Bounds func(tier string) string
}

var registry = map[string]*Check{}

func Register(c *Check) { registry[c.ID] = c }
func Lookup(id string) *Check {
	return registry[id]
}
func IDs() []string {
	ids := []string{}
	for k := range registry {
		ids = append(ids, k)
	}
	sort.Strings(ids)
	return ids
}

// Violation is one failing case as reported by a worker.
type Violation struct {
	Sig    string `json:"signature"` // failing mechanism (dedupe key)
	Space  string `json:"space"`
	Index  int64  `json:"index"`
	Case   string `json:"case"`
	Detail string `json:"detail"`
	Count  int64  `json:"count"` // how many cases showed this signature
}

// Stats accumulated by a worker.
type Stats struct {
	Counters map[string]int64      `json:"counters"`
	Outcomes map[string]int64      `json:"outcomes"`
	Samples  []string              `json:"samples"`
	Viol     map[string]*Violation `json:"viol"`
	Notes    map[string]string     `json:"notes"`
}

func NewStats() *Stats {
	return &Stats{Counters: map[string]int64{}, Outcomes: map[string]int64{}, Viol: map[string]*Violation{}, Notes: map[string]string{}}
}

func (s *Stats) Merge(o *Stats) {
	if o == nil {
		return
	}
	for k, v := range o.Counters {
		s.Counters[k] += v
	}
	for k, v := range o.Outcomes {
		s.Outcomes[k] += v
	}
	for _, x := range o.Samples {
		if len(s.Samples) < 12 {
			s.Samples = append(s.Samples, x)
		}
	}
	for k, v := range o.Notes {
		s.Notes[k] = v
	}
	for k, v := range o.Viol {
		if cur, ok := s.Viol[k]; ok {
			cnt := cur.Count + v.Count
			if v.Space == cur.Space && v.Index < cur.Index || spaceOrder[v.Space] < spaceOrder[cur.Space] {
				cp := *v
				s.Viol[k] = &cp
			}
			s.Viol[k].Count = cnt
		} else {
			cp := *v
			s.Viol[k] = &cp
		}
	}
}

var spaceOrder = map[string]int{}

// Ctx is handed to Space.Run.
type Ctx struct {
	mu      sync.Mutex
	stats   *Stats
	space   *Space
	index   int64
	Verbose bool
	Tier    string
	started time.Time
}

func (c *Ctx) Count(name string, n int64) { c.stats.Counters[name] += n }

// Eval counts one evaluation of the implementation (one trace of the
// reference model replayed against it).
func (c *Ctx) Eval(n int64) { c.stats.Counters["evaluations"] += n }

// Nontrivial counts the current case as non-trivial under the check's rule.
func (c *Ctx) Nontrivial() { c.stats.Counters["nontrivial"]++ }

// Outcome records an observed outcome class (kept small by the caller).
func (c *Ctx) Outcome(class string) {
	if len(c.stats.Outcomes) < 4096 {
		c.stats.Outcomes[class]++
	} else if _, ok := c.stats.Outcomes[class]; ok {
		c.stats.Outcomes[class]++
	}
}

func (c *Ctx) Note(k, v string) { c.stats.Notes[k] = v }

func (c *Ctx) Sample(s string) {
	if len(c.stats.Samples) < 4 {
		c.stats.Samples = append(c.stats.Samples, s)
	}
}

// Violation reports that the current case breaks the property. sig names the
// failing mechanism; the first (smallest-index) case per signature is kept.
func (c *Ctx) Violation(sig string, format string, args ...interface{}) {
	detail := fmt.Sprintf(format, args...)
	if c.Verbose {
		fmt.Printf("  violation sig=%s case=%s\n    %s\n", sig, c.caseRepr(), detail)
	}
	if v, ok := c.stats.Viol[sig]; ok {
		v.Count++
		return
	}
	c.stats.Viol[sig] = &Violation{Sig: sig, Space: c.space.Name, Index: c.index, Case: c.caseRepr(), Detail: detail, Count: 1}
}

func (c *Ctx) caseRepr() string {
	if c.space.Repr != nil {
		return c.space.Repr(c.index)
	}
	return fmt.Sprintf("%s#%d", c.space.Name, c.index)
}

// Try runs f and returns the recovered panic value (nil if none).
func Try(f func()) (p interface{}) {
	defer func() {
		if r := recover(); r != nil {
			p = r
		}
	}()
	f()
	return nil
}

// PanicStr renders a recovered value compactly.
func PanicStr(p interface{}) string {
	s := fmt.Sprint(p)
	if len(s) > 160 {
		s = s[:160]
	}
	return s
}
