package checks

import (
	"fmt"
	"strings"

	"verifmc/fw"

	ctok "github.com/pip-services3-gox/pip-services3-expressions-gox/calculator/tokenizers"
	"github.com/pip-services3-gox/pip-services3-expressions-gox/csv"
	rio "github.com/pip-services3-gox/pip-services3-expressions-gox/io"
	"github.com/pip-services3-gox/pip-services3-expressions-gox/tokenizers"
	"github.com/pip-services3-gox/pip-services3-expressions-gox/tokenizers/generic"
)

// C14 — quote encoding and decoding are inverse and total.

var c14Quotes = []rune{'\'', '"', '”'}
var c14States = []string{"generic", "expression", "csv"}

func c14State(name string) tokenizers.IQuoteState {
	switch name {
	case "generic":
		return generic.NewGenericQuoteState()
	case "expression":
		return ctok.NewExpressionQuoteState()
	}
	return csv.NewCsvQuoteState()
}

func c14Alphabet(q rune) []rune {
	other := '"'
	if q == '"' {
		other = '\''
	}
	return []rune{q, other, 'a', 'é', 'я', '€', '\U0001F600', ' ', '\n', '\r'}
}

var c14Tails = []string{"", " x", ","}

func c14Run(c *fw.Ctx, state string, q rune, s string) {
	st := c14State(state)
	tag := state + ":" + fmt.Sprintf("%q", string(q))
	// (b) decoding is total
	var dec string
	if pv := fw.Try(func() { dec = st.DecodeString(s, q) }); pv != nil {
		c.Violation("decode-panics:"+state, "%s quote state: DecodeString(%q, %q) panics: %s", state, s, string(q), panicShort(pv))
	}
	_ = dec
	c.Eval(1)
	// (a) decode(encode(s)) = s
	var enc, back string
	pv := fw.Try(func() { enc = st.EncodeString(s, q); back = st.DecodeString(enc, q) })
	c.Eval(1)
	if pv != nil {
		c.Violation("roundtrip-panics:"+state, "%s quote state: Decode(Encode(%q, %q)) panics: %s", state, s, string(q), panicShort(pv))
		return
	}
	if back != s {
		c.Violation("roundtrip-differs:"+state, "%s quote state: Decode(Encode(%q,%q)=%q) = %q", state, s, string(q), enc, back)
	}
	if s != "" {
		c.Nontrivial()
	}
	c.Outcome(tag)
	if state == "generic" {
		return
	}
	// (c') ... also through a default tokenizer of that kind, as constructed, with decoding on
	if (state == "csv" && q == '"') || (state == "expression" && q == '\'') {
		var t tokenizers.ITokenizer
		if state == "csv" {
			t = csv.NewCsvTokenizer()
		} else {
			t = ctok.NewExpressionTokenizer()
		}
		t.SetDecodeStrings(true)
		res := tokenizeOn(t, enc)
		c.Eval(1)
		// (whether the tokenizer as constructed reports the end of input as a token is not pinned)
		if n := len(res.toks); n > 0 && res.toks[n-1].typ == tokenizers.Eof {
			res.toks = res.toks[:n-1]
		}
		if res.failed() || len(res.toks) != 1 || res.toks[0].typ != tokenizers.Quoted || res.toks[0].val != s {
			detail := tokStr(res.toks)
			if res.failed() {
				detail = res.failStr()
			}
			c.Violation("default-tokenizer-read-back:"+state, "default %s tokenizer with DecodeStrings over %q (encoding of %q): %s; one Quoted token with the original value expected", state, enc, s, detail)
		}
	}
	// (c'') a CSV tokenizer configured with the non-Latin quote: the literal after a non-Latin field
	if state == "csv" && q == '”' {
		t := csv.NewCsvTokenizer()
		t.SetQuoteSymbols([]rune{q})
		t.SetDecodeStrings(true)
		res := tokenizeOn(t, "я,"+enc)
		c.Eval(1)
		if n := len(res.toks); n > 0 && res.toks[n-1].typ == tokenizers.Eof {
			res.toks = res.toks[:n-1]
		}
		if res.failed() || len(res.toks) != 3 || res.toks[0].val != "я" || res.toks[1].typ != tokenizers.Symbol || res.toks[2].typ != tokenizers.Quoted || res.toks[2].val != s {
			detail := tokStr(res.toks)
			if res.failed() {
				detail = res.failStr()
			}
			c.Violation("configured-tokenizer-read-back:csv", "CSV tokenizer with quote %q and DecodeStrings over %q: %s; the field я, a separator and one Quoted token holding %q expected", string(q), "я,"+enc, detail, s)
		}
	}
	// (c) the encoded form in a stream is read back as exactly one token
	for _, tail := range c14Tails {
		text := enc + tail
		var tok *tokenizers.Token
		var rest []rune
		pv := fw.Try(func() {
			sc := rio.NewStringScanner(text)
			tok = st.NextToken(sc, nil)
			for i := 0; i < len(text)+2; i++ {
				r := sc.Read()
				if r == -1 {
					break
				}
				rest = append(rest, r)
			}
		})
		c.Eval(1)
		if pv != nil || tok == nil {
			c.Violation("stream-read-panics:"+state, "%s quote state: NextToken over %q panics: %v", state, text, pv)
			continue
		}
		if tok.Value() != enc || string(rest) != tail {
			c.Violation("stream-read-splits:"+state, "%s quote state: NextToken over %q (encoding of %q + tail %q) returns %q and leaves %q", state, text, s, tail, tok.Value(), string(rest))
			continue
		}
		var d string
		if pv := fw.Try(func() { d = st.DecodeString(tok.Value(), q) }); pv != nil || d != s {
			c.Violation("stream-decode:"+state, "%s quote state: token %q decodes to %q (panic=%v), original %q", state, tok.Value(), d, pv, s)
		}
	}
}

func init() {
	fw.Register(&fw.Check{
		ID:    "C14",
		Level: "model_checking",
		Rule: "every string up to the length bound over {quote, other quote, ASCII letter, 2-, 3- and 4-byte characters, space, LF, CR} x quote in {',\",”} x the three quote states; " +
			"oracle: Decode never panics, Decode(Encode(s))=s, and for the expression and CSV states the encoding followed by each tail in {EOF,' x',','} is read back as one token that decodes to s with the scanner left at the tail, and a default CSV / expression tokenizer as constructed (decoding on) returns exactly one Quoted token holding s; plus every history of <=3 Encode/Decode/NextToken calls (terminated and unterminated literals, any of the three quote characters) on ONE state instance, each result compared with a fresh instance; non-trivial = non-empty string",
		Assume: []string{"one representative per UTF-8 width stands for the width class"},
		Spaces: func(tier string) []fw.Space {
			maxLen := 5
			if tier == "thorough" {
				maxLen = 7
			}
			sp := []fw.Space{}
			for _, state := range c14States {
				for _, q := range c14Quotes {
					state, q := state, q
					al := c14Alphabet(q)
					sp = append(sp, fw.Space{Name: fmt.Sprintf("%s-%U", state, q), N: countStrings(len(al), maxLen),
						Run:  func(c *fw.Ctx, i int64) { c14Run(c, state, q, stringByIndex(al, i)) },
						Repr: func(i int64) string { return fmt.Sprintf("%s quote state, quote %q, string %q", state, string(q), stringByIndex(al, i)) }})
				}
			}
			for _, state := range c14States {
				for _, q := range c14Quotes {
					state, q := state, q
					al := c14Alphabet(q)
					npat := countStrings(len(al), 2) - 1
					sp = append(sp, fw.Space{Name: fmt.Sprintf("pumped-%s-%U", state, q), N: npat * int64(len(pumpCountsSmall)),
						Run:  func(c *fw.Ctx, i int64) { c14Run(c, state, q, pumped(stringByIndex(al, 1+i%npat), pumpCountsSmall[i/npat])) },
						Repr: func(i int64) string { return fmt.Sprintf("%s quote state, quote %q, string %q x %d", state, string(q), stringByIndex(al, 1+i%npat), pumpCountsSmall[i/npat]) }})
				}
			}
			for _, state := range c14States {
				for _, q := range c14Quotes {
					state, q := state, q
					ctx := []string{"", "a", string(q), string(q) + "a"}
					sp = append(sp, fw.Space{Name: fmt.Sprintf("charsweep-%s-%U", state, q), N: int64(len(boundaryChars) * len(ctx) * len(ctx)),
						Run: func(c *fw.Ctx, i int64) {
							k := int(i) % (len(ctx) * len(ctx))
							c14Run(c, state, q, ctx[k/len(ctx)]+string(boundaryChars[int(i)/(len(ctx)*len(ctx))])+ctx[k%len(ctx)])
						},
						Repr: func(i int64) string {
							k := int(i) % (len(ctx) * len(ctx))
							return fmt.Sprintf("%s quote state, quote %q, string %q", state, string(q), ctx[k/len(ctx)]+string(boundaryChars[int(i)/(len(ctx)*len(ctx))])+ctx[k%len(ctx)])
						}})
				}
			}
			// change-directed: literals the working tree has and the pinned tree has not, as extra letters
			if na := newAtoms(4); len(na) > 0 {
				for _, state := range c14States {
					for _, q := range c14Quotes {
						state, q := state, q
						atoms := append(append([]string{}, na...), "a", "0", string(q), "\\")
						sp = append(sp, fw.Space{Name: fmt.Sprintf("new-literals-%s-%U", state, q), N: countStrings(len(atoms), 6),
							Run:  func(c *fw.Ctx, i int64) { c14Run(c, state, q, strings.Join(lexemesByIndex(atoms, i), "")) },
							Repr: func(i int64) string { return fmt.Sprintf("%s quote state, quote %q, string %q (letters incl. literals new in the working tree: %q)", state, string(q), strings.Join(lexemesByIndex(atoms, i), ""), na) }})
					}
				}
			}
			hl := 3
			for _, state := range c14States {
				state := state
				k := len(c14Ops)
				sp = append(sp, fw.Space{Name: "shared-instance-" + state, N: countStrings(k, hl),
					Run: func(c *fw.Ctx, i int64) { c14History(c, state, seqByIndex(k, i)) },
					Repr: func(i int64) string {
						p := []string{}
						for _, x := range seqByIndex(k, i) {
							p = append(p, c14Ops[x].String())
						}
						return state + " quote state, one instance: " + strings.Join(p, "; ")
					}})
			}
			return sp
		},
		Bounds: func(tier string) string {
			if tier == "thorough" {
				return "strings of length<=7 over 9 characters x 3 quotes x 3 states"
			}
			return "strings of length<=5 over 9 characters x 3 quotes x 3 states"
		},
	})
}

// ---- one long-lived quote state used with several quote characters (differential against fresh states)

var c14HistStrings = []string{"a", "it's", "say \"hi\"", "”x”", "''", "\"\"", "'a''b'", "\"a\"\"b\"",
	// one inner text (24 and 70 bytes) holding both kinds of doubled quotes, wrapped in each quote character
	"'He said \"\"hi\"\" it''s ok'", "\"He said \"\"hi\"\" it''s ok\"",
	"'" + strings.Repeat("ab''c\"\"d ", 7) + "'", "\"" + strings.Repeat("ab''c\"\"d ", 7) + "\""}

type c14Op struct {
	enc  bool
	q    rune
	s    string
	next bool // NextToken over the stream s (terminated, unterminated, with a tail)
}

var c14HistStreams = []string{"'abc", "\"", "'a''", "'ok' x", "\"id\",1", "'it''s'", "\"a\nb"}

func (o c14Op) String() string {
	if o.next {
		return fmt.Sprintf("NextToken(%q)", o.s)
	}
	if o.enc {
		return fmt.Sprintf("Encode(%q,%q)", o.s, string(o.q))
	}
	return fmt.Sprintf("Decode(%q,%q)", o.s, string(o.q))
}

var c14Ops []c14Op

func init() {
	for _, enc := range []bool{true, false} {
		for _, q := range c14Quotes {
			for _, s := range c14HistStrings {
				c14Ops = append(c14Ops, c14Op{enc: enc, q: q, s: s})
			}
		}
	}
	for _, s := range c14HistStreams {
		c14Ops = append(c14Ops, c14Op{s: s, next: true})
	}
}

func c14History(c *fw.Ctx, state string, seq []int) {
	st := c14State(state)
	hist := []string{}
	for _, k := range seq {
		o := c14Ops[k]
		apply := func(s tokenizers.IQuoteState) (out string) {
			defer func() {
				if p := recover(); p != nil {
					out = "panic: " + panicShort(p)
				}
			}()
			if o.next {
				sc := rio.NewStringScanner(o.s)
				tok := s.NextToken(sc, nil)
				rest := []rune{}
				for r := sc.Read(); r != -1 && len(rest) < len(o.s)+2; r = sc.Read() {
					rest = append(rest, r)
				}
				return fmt.Sprintf("token %s %q at %d:%d, rest %q", tokTypeName(tok.Type()), tok.Value(), tok.Line(), tok.Column(), string(rest))
			}
			if o.enc {
				return s.EncodeString(o.s, o.q)
			}
			return s.DecodeString(o.s, o.q)
		}
		got := apply(st)
		want := apply(c14State(state))
		c.Eval(2)
		if got != want {
			c.Violation("quote-state-history-dependent:"+state, "%s quote state after [%s]: %s = %q, a fresh state gives %q", state, strings.Join(hist, "; "), o, got, want)
			return
		}
		hist = append(hist, o.String())
	}
	if len(seq) >= 2 {
		c.Nontrivial()
	}
}
