#!/usr/bin/env python3
"""Generates /verif/MANIFEST.json from the table below (keeps it schema-valid)."""
import json, os
V = os.path.dirname(os.path.dirname(os.path.abspath(__file__)))
CHECKS = {
 # id: (category, level text, level note, technique, design_ref)
 "C11": ("model_checking",
   "Explicit-state BFS of the real StringScanner: the complete reachable state graph of every content over {x,LF,CR} up to the length bound under {Read,Unread,UnreadMany(2),UnreadMany(3),Reset}; every state compared with a cursor model, an independent line/column rule and a fresh forward scan of the real scanner. Exhaustive within the bound, which is the right level for a 4-field object whose graph closes after len+2 states.",
   "Trusted: Go reflection reads the unexported position field for the state key only (oracle uses observable results); peek law asserted where a next character exists.",
   "explicit-state BFS over operation histories (replay on fresh instance) vs reference cursor model", "§3 C11"),
}
NOT_YET = "check not built yet in this revision (work in progress; planned in DESIGN.md §3)"
ALL = ["C%02d" % i for i in range(1, 21)]
m = {
 "version": 1,
 "setup_cmd": "./setup.sh",
 "hooks": {
   "guard": "verif",
   "enable": "no source hooks are committed to the repository; checks build the harness module /verif/mc with a go.mod replace directive pointing at the repository's current working tree",
   "baseline_off_cmd": "cd /repo && GOFLAGS=-mod=mod GOPROXY=off GOSUMDB=off GOTOOLCHAIN=local go test -json -vet=off -count=1 -timeout 25m ./...",
   "source_commits": [],
   "add_only": True,
 },
 "engines": [
   {"name": "verifmc", "path": "mc/", "serves_properties": sorted(CHECKS),
    "kind_free_text": "hand-written Go bounded-exhaustive explorer: index-addressable input/history spaces sharded over watchdogged worker subprocesses, explicit-state BFS with replay-on-fresh-instance successors, reference models in Go, every violation re-executed in a fresh process and written as a replay file"},
 ],
 "checks": [],
 "not_applicable": [],
 "notes": "All checks rebuild mc/ against /repo's working tree (VERIF_REPO overrides). known_findings.json is read-only at run time.",
}
for cid in ALL:
    if cid in CHECKS:
        cat, text, note, tech, ref = CHECKS[cid]
        m["checks"].append({
          "property_id": cid,
          "quick_cmd": "./run_check.sh %s quick" % cid,
          "thorough_cmd": "./run_check.sh %s thorough" % cid,
          "evidence_file": "evidence/%s.json" % cid,
          "replay_cmd_template": "./run_check.sh replay {path}",
          "engine": "verifmc",
          "level_claimed": {"category": cat, "text": text, "design_ref": ref},
          "level_note": note,
          "technique": tech,
        })
    else:
        m["not_applicable"].append({"property_id": cid, "reason": NOT_YET})
json.dump(m, open(os.path.join(V, "MANIFEST.json"), "w"), indent=1)
print("MANIFEST.json: %d checks, %d not_applicable" % (len(m["checks"]), len(m["not_applicable"])))
