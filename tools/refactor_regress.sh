#!/bin/bash
# usage: refactor_regress.sh [tier]
# Every stored behaviour-preserving refactoring (/verif/refactorings/*/patch.diff) and every stored change inside the freedom the properties leave (/verif/unconstrained/*/patch.diff) is applied to a scratch
# worktree and all 20 checks are run against it; every check must exit 0 (a VIOLATION here is a false alarm).
TIER=${1:-quick}
for d in /verif/refactorings/*/ /verif/unconstrained/*/; do
  echo "##### $(basename $d)"
  /verif/tools/refactor_check.sh $d/patch.diff $TIER 2>&1 | grep -v "exit=0 $"
done
