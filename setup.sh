#!/bin/bash
# Build the framework once (warms the Go build cache); offline, files on disk only.
set -e
VERIF=$(cd "$(dirname "$0")" && pwd)
export VERIF_DIR=$VERIF
"$VERIF/run_check.sh" list >/dev/null 2>&1 || true
export GOFLAGS=-mod=mod GOPROXY=off GOSUMDB=off GOTOOLCHAIN=local GOCACHE=$VERIF/.gocache TZ=UTC
cd "$VERIF/mc"
sed "s#@REPO@#${VERIF_REPO:-/repo}#" go.mod.tmpl > go.mod
cat "${VERIF_REPO:-/repo}/go.sum" > go.sum
go build -o "$VERIF/bin/gen" ./cmd/gen
"$VERIF/bin/gen" "${VERIF_REPO:-/repo}" "$VERIF/bin/overlay.setup" instrument >/dev/null
go build -overlay "$VERIF/bin/overlay.setup/overlay.json" -o "$VERIF/bin/check" ./cmd/check
"$VERIF/bin/gen" "${VERIF_REPO:-/repo}" "$VERIF/bin/overlay.setup" >/dev/null
go build -overlay "$VERIF/bin/overlay.setup/overlay.json" -o "$VERIF/bin/check" ./cmd/check
# warm the -race build cache (C19's auxiliary race-detector pass)
go build -race -overlay "$VERIF/bin/overlay.setup/overlay.json" -o "$VERIF/bin/check.race" ./cmd/check
rm -rf "$VERIF/bin/overlay.setup" "$VERIF/bin/check.race"
echo "setup ok: $("$VERIF/bin/check" list | tr '\n' ' ')"
