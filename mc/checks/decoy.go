package checks

import (
	"verifmc/fw"

	"github.com/pip-services3-gox/pip-services3-expressions-gox/calculator"
	"github.com/pip-services3-gox/pip-services3-expressions-gox/calculator/functions"
	"github.com/pip-services3-gox/pip-services3-expressions-gox/calculator/parsers"
	"github.com/pip-services3-gox/pip-services3-expressions-gox/calculator/variables"
	"github.com/pip-services3-gox/pip-services3-expressions-gox/csv"
	rio "github.com/pip-services3-gox/pip-services3-expressions-gox/io"
	"github.com/pip-services3-gox/pip-services3-expressions-gox/mustache"
	"github.com/pip-services3-gox/pip-services3-expressions-gox/tokenizers"
	"github.com/pip-services3-gox/pip-services3-expressions-gox/variants"
)

// The "hostile neighbour": a set of library objects that belong to nobody's case. They are created
// and customised as aggressively as the public API allows - character classes disabled and enabled,
// symbols registered with odd types, state tables cleared, default collections emptied, values written
// in place into every container and variant the getters hand out, iterations abandoned half-way, calls
// that fail - at the start of every worker process and again every few hundred cases. Every object a
// case works with must be independent of them, so all reference-model oracles double as a check that
// no state is shared between instances through package-level variables or shared defaults.
// (An oracle that compares with a "fresh instance" cannot see this: the fresh instance is
// contaminated too. The model-based oracles can.)

type decoyTokenizer interface {
	tokenizers.ITokenizer
	WhitespaceState() tokenizers.IWhitespaceState
	WordState() tokenizers.IWordState
	SymbolState() tokenizers.ISymbolState
	NumberState() tokenizers.INumberState
	QuoteState() tokenizers.IQuoteState
	CommentState() tokenizers.ICommentState
	SetCharacterState(fromSymbol rune, toSymbol rune, state tokenizers.ITokenizerState)
	ClearCharacterStates()
}

var decoyRounds int

func hostileNeighbour() {
	decoyRounds++
	each := func(f func(t decoyTokenizer)) {
		for _, kind := range tokKinds {
			t, ok := newTokenizer(kind).(decoyTokenizer)
			if !ok {
				continue
			}
			fw.Try(func() { f(t) })
		}
	}
	// the first write into a pristine whitespace table is a DISABLE
	each(func(t decoyTokenizer) {
		ws := t.WhitespaceState()
		ws.SetWhitespaceChars('\n', '\n', false)
		ws.SetWhitespaceChars(0, 0xfffe, false)
		ws.SetWhitespaceChars('a', 'z', true)
	})
	// ... is an ENABLE, then a clear
	each(func(t decoyTokenizer) {
		ws := t.WhitespaceState()
		ws.SetWhitespaceChars('0', 'z', true)
		ws.SetWhitespaceChars(0x400, 0x4ff, true)
		ws.ClearWhitespaceChars()
	})
	each(func(t decoyTokenizer) {
		wd := t.WordState()
		wd.SetWordChars('-', '-', true)
		wd.SetWordChars('.', '.', true)
		wd.SetWordChars('<', '>', true)
		wd.SetWordChars('a', 'm', false)
		wd.SetWordChars(0x100, 0xfffe, false)
	})
	each(func(t decoyTokenizer) {
		wd := t.WordState()
		wd.SetWordChars('a', 'z', false)
		wd.ClearWordChars()
	})
	each(func(t decoyTokenizer) {
		sy := t.SymbolState()
		sy.Add("=>", tokenizers.Keyword)
		sy.Add("<", tokenizers.Word)
		sy.Add(">", tokenizers.Special)
		sy.Add("**", tokenizers.Special)
		sy.Add("<=>", tokenizers.Float)
		sy.Add("ab", tokenizers.Symbol)
		sy.Add(",", tokenizers.Word)
		sy.Add("{{", tokenizers.Word)
	})
	each(func(t decoyTokenizer) {
		t.SetCharacterState('a', 'z', t.SymbolState())
		t.SetCharacterState('0', '9', t.WordState())
		t.SetCharacterState(0x100, 0xfffe, t.WhitespaceState())
		t.SetCharacterState(0, 0xfffe, nil)
	})
	each(func(t decoyTokenizer) {
		t.ClearCharacterStates()
		t.SetCharacterState(0, 0xfffe, t.WordState())
	})
	each(func(t decoyTokenizer) {
		// all options on, an iteration abandoned after a look-ahead, unterminated literals
		setOptions(t, 127)
		for _, in := range []string{"'abc", "\"x", "/* c", "<= <> << {{ a }} 1e", "a,\"b"} {
			t.SetReader(rio.NewStringScanner(in))
			t.HasNextToken()
			t.NextToken()
			t.HasNextToken()
		}
		q := t.QuoteState()
		q.EncodeString("it's \"x\"", '\'')
		q.DecodeString("'abc", '\'')
		q.DecodeString("", '"')
	})
	// CSV configuration: written through the slices the getters hand out, then through the setters
	fw.Try(func() {
		c := csv.NewCsvTokenizer()
		for _, s := range [][]rune{c.FieldSeparators(), c.QuoteSymbols()} {
			for i := range s {
				s[i] = '~'
			}
		}
		c.SetFieldSeparators(c.FieldSeparators())
		c.SetQuoteSymbols(c.QuoteSymbols())
		c.SetEndOfLine("~")
		d := csv.NewCsvTokenizer()
		seps, quotes := []rune{'|', 'a'}, []rune{'\'', 'b'}
		d.SetFieldSeparators(seps)
		d.SetQuoteSymbols(quotes)
		seps[0], quotes[0] = ',', '"'
		d.TokenizeBuffer("a|'b'\n")
	})
	// calculators, parsers, collections
	fw.Try(func() {
		calc := calculator.NewExpressionCalculator()
		calc.DefaultFunctions().RemoveByName("Sum")
		calc.DefaultFunctions().Add(functions.NewDelegatedFunction("Max", func(p []*variants.Variant, o variants.IVariantOperations) (*variants.Variant, error) {
			return variants.VariantFromString("decoy"), nil
		}))
		for _, f := range calc.DefaultFunctions().GetAll() {
			_ = f
		}
		fa := calc.DefaultFunctions().GetAll()
		for i := range fa {
			fa[i] = nil
		}
		calc.DefaultFunctions().Clear()
		calc.DefaultVariables().Add(variables.NewVariable("a", variants.VariantFromInteger(12345)))
		calc.SetVariantOperations(variants.NewTypeSafeVariantOperations())
		calc.SetExpression("(1 +")
		calc.SetExpression("a + b * Max(1, 2)")
		calc.Evaluate()
		calc.EvaluateUsingVariables(nil)
		// (the variants inside compiled tokens are not written to: operator tokens of the pinned code
		// carry the package-level variants.Empty by design)
		rt := calc.ResultTokens()
		for i := range rt {
			rt[i] = nil
		}
		calc.SetAutoVariables(false)
		calc.Clear()
	})
	fw.Try(func() {
		p := parsers.NewExpressionParser()
		p.ParseString("a[1")
		p.ParseString("x + 'lit' * 2")
		rt := p.ResultTokens()
		for i := range rt {
			rt[i] = nil
		}
		names := p.VariableNames()
		for i := range names {
			names[i] = "decoy"
		}
		ot := p.OriginalTokens()
		for i := range ot {
			ot[i] = nil
		}
	})
	fw.Try(func() {
		// variables created without a value own their (null) value
		v1 := variables.EmptyVariable("x")
		v1.Value().SetAsInteger(12345)
		v2 := variables.NewVariable("y", nil)
		v2.Value().SetAsString("decoy")
		vc := variables.NewVariableCollection()
		vc.Add(variables.NewVariable("p", variants.VariantFromInteger(1)))
		vc.Add(variables.NewVariable("q", variants.VariantFromInteger(2)))
		vc.ClearValues()
		vc.Get(0).Value().SetAsInteger(7)
		vc.Locate("r").Value().SetAsBoolean(true)
		all := vc.GetAll()
		for i := range all {
			all[i] = nil
		}
	})
	fw.Try(func() {
		// variants: whatever operations hand out belongs to the caller
		for _, ops := range []variants.IVariantOperations{variants.NewTypeUnsafeVariantOperations(), variants.NewTypeSafeVariantOperations()} {
			ops.Convert(variants.VariantFromInteger(1), variants.Array)
			for _, to := range []variants.VariantType{variants.Null, variants.Integer, variants.Long, variants.Double, variants.String, variants.Object} {
				if r, _ := ops.Convert(variants.VariantFromInteger(5), to); r != nil {
					r.SetAsString("decoy")
				}
			}
			if r, _ := ops.Add(variants.EmptyVariant(), variants.VariantFromInteger(1)); r != nil {
				r.SetAsString("decoy")
			}
			if r, _ := ops.Equal(variants.EmptyVariant(), variants.EmptyVariant()); r != nil {
				r.SetAsString("decoy")
			}
		}
		e := variants.EmptyVariant()
		e.SetAsInteger(5)
		a := variants.VariantFromArray([]*variants.Variant{variants.VariantFromInteger(1), nil})
		for i, x := range a.AsArray() {
			if x != nil {
				x.SetAsString("decoy")
			}
			a.AsArray()[i] = nil
		}
		c := a.Clone()
		c.SetByIndex(5, variants.VariantFromInteger(9))
		c.Clear()
	})
	fw.Try(func() {
		t := mustache.NewMustacheTemplate()
		m := t.DefaultVariables()
		m["a"] = "decoy"
		t.SetTemplate("{{a}}{{#b}}x{{/b}}{{{c}}}")
		t.Evaluate()
		t.EvaluateWithVariables(map[string]string{"c": "<&>\"", "b": "1"})
		t.SetTemplate("{{#a}}unclosed")
		for _, tk := range t.ResultTokens() {
			_ = tk
		}
		t.Clear()
		u := mustache.NewMustacheTemplate()
		shared := map[string]string{"name": "decoy"}
		u.SetDefaultVariables(shared)
		u.SetAutoVariables(false)
		u.SetTemplate("{{name}}")
		u.Clear()
	})
}

func init() {
	fw.BetweenCases = hostileNeighbour
}
