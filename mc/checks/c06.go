package checks

import (
	"fmt"
	"math"
	"time"

	"verifmc/fw"

	"github.com/pip-services3-gox/pip-services3-expressions-gox/variants"
)

// C06 — variant operators implement the arithmetic of the first operand's type.

var c06Binary = []string{"Add", "Sub", "Mul", "Div", "Mod", "Pow", "And", "Or", "Xor", "Lsh", "Rsh", "Equal", "NotEqual", "More", "Less", "MoreEqual", "LessEqual", "In", "GetElement"}
var c06Unary = []string{"Not", "Negative"}

func callBinary(ops variants.IVariantOperations, op string, a, b *variants.Variant) (*variants.Variant, error) {
	switch op {
	case "Add":
		return ops.Add(a, b)
	case "Sub":
		return ops.Sub(a, b)
	case "Mul":
		return ops.Mul(a, b)
	case "Div":
		return ops.Div(a, b)
	case "Mod":
		return ops.Mod(a, b)
	case "Pow":
		return ops.Pow(a, b)
	case "And":
		return ops.And(a, b)
	case "Or":
		return ops.Or(a, b)
	case "Xor":
		return ops.Xor(a, b)
	case "Lsh":
		return ops.Lsh(a, b)
	case "Rsh":
		return ops.Rsh(a, b)
	case "Equal":
		return ops.Equal(a, b)
	case "NotEqual":
		return ops.NotEqual(a, b)
	case "More":
		return ops.More(a, b)
	case "Less":
		return ops.Less(a, b)
	case "MoreEqual":
		return ops.MoreEqual(a, b)
	case "LessEqual":
		return ops.LessEqual(a, b)
	case "In":
		return ops.In(a, b)
	case "GetElement":
		return ops.GetElement(a, b)
	}
	panic("unknown op " + op)
}

func callUnary(ops variants.IVariantOperations, op string, a *variants.Variant) (*variants.Variant, error) {
	if op == "Not" {
		return ops.Not(a)
	}
	return ops.Negative(a)
}

// refResult: what the reference operator table says.
type refResult struct {
	kind string // "value" | "error" | "open" (no panic, result XOR error) | "value-or-error"
	typ  variants.VariantType
	val  interface{}
	same *variants.Variant // identity expected (GetElement on arrays)
	powF float64
	pow  bool
	note string
}

func rv(t variants.VariantType, v interface{}) refResult { return refResult{kind: "value", typ: t, val: v} }

var rErr = refResult{kind: "error"}
var rOpen = refResult{kind: "open"}
var rNull = refResult{kind: "value", typ: variants.Null, val: nil}

func isNumeric(t variants.VariantType) bool {
	return t == variants.Integer || t == variants.Long || t == variants.Float || t == variants.Double
}

// convertReal converts with a fresh manager of the kind under test (C07 decides Convert itself).
func convertReal(safe bool, v *variants.Variant, to variants.VariantType) (r *variants.Variant, err error, ok bool) {
	pv := fw.Try(func() { r, err = opsManager(safe).Convert(v, to) })
	if pv != nil || (r == nil && err == nil) {
		return nil, nil, false
	}
	if err == nil && to != variants.Object && to != variants.Null && r.Type() != to {
		return nil, nil, false
	}
	if err == nil && to != variants.Object && to != variants.Null && v.Type() != to {
		// where the reference conversion table defines the payload, the operator reference is
		// computed from the table's value, not from whatever the manager's Convert produced
		if status, payload, known := refConvertUnsafe(v, to); known && status != "err" && !payloadEq(r.AsObject(), payload) {
			nr := variants.EmptyVariant()
			nr.SetAsObject(payload)
			if nr.Type() == to {
				return nr, nil, true
			}
		}
	}
	return r, err, true
}

func refBinary(op string, safe bool, a, b *variants.Variant) refResult {
	ta := a.Type()
	an, bn := ta == variants.Null, b.Type() == variants.Null
	switch op {
	case "Equal", "NotEqual":
		if an || bn {
			return rv(variants.Boolean, (an && bn) == (op == "Equal"))
		}
	default:
		if an || bn {
			return rNull
		}
	}
	// second operand conversion
	target := ta
	switch op {
	case "Lsh", "Rsh", "GetElement":
		target = variants.Integer
	case "Pow":
		target = variants.Double
	case "In":
		target = variants.Object // no up-front conversion
	}
	var b2 *variants.Variant
	if op != "In" {
		if op == "Pow" && !isNumeric(ta) {
			return rOpen
		}
		r, err, ok := convertReal(safe, b, target)
		if !ok {
			return rOpen // Convert itself misbehaves: C07's business
		}
		if err != nil {
			return rErr
		}
		b2 = r
	}
	switch op {
	case "Add":
		switch ta {
		case variants.Integer:
			return rv(ta, a.AsInteger()+b2.AsInteger())
		case variants.Long:
			return rv(ta, a.AsLong()+b2.AsLong())
		case variants.Float:
			return rv(ta, a.AsFloat()+b2.AsFloat())
		case variants.Double:
			return rv(ta, a.AsDouble()+b2.AsDouble())
		case variants.TimeSpan:
			return rv(ta, a.AsTimeSpan()+b2.AsTimeSpan())
		case variants.String:
			return rv(ta, a.AsString()+b2.AsString())
		}
		return rOpen
	case "Sub":
		switch ta {
		case variants.Integer:
			return rv(ta, a.AsInteger()-b2.AsInteger())
		case variants.Long:
			return rv(ta, a.AsLong()-b2.AsLong())
		case variants.Float:
			return rv(ta, a.AsFloat()-b2.AsFloat())
		case variants.Double:
			return rv(ta, a.AsDouble()-b2.AsDouble())
		case variants.TimeSpan:
			return rv(ta, a.AsTimeSpan()-b2.AsTimeSpan())
		case variants.DateTime:
			return rv(variants.TimeSpan, a.AsDateTime().Sub(b2.AsDateTime()))
		}
		return rOpen
	case "Mul":
		switch ta {
		case variants.Integer:
			return rv(ta, a.AsInteger()*b2.AsInteger())
		case variants.Long:
			return rv(ta, a.AsLong()*b2.AsLong())
		case variants.Float:
			return rv(ta, a.AsFloat()*b2.AsFloat())
		case variants.Double:
			return rv(ta, a.AsDouble()*b2.AsDouble())
		}
		return rOpen
	case "Div":
		switch ta {
		case variants.Integer:
			if b2.AsInteger() == 0 {
				return rErr
			}
			return rv(ta, a.AsInteger()/b2.AsInteger())
		case variants.Long:
			if b2.AsLong() == 0 {
				return rErr
			}
			return rv(ta, a.AsLong()/b2.AsLong())
		case variants.Float:
			return rv(ta, a.AsFloat()/b2.AsFloat())
		case variants.Double:
			return rv(ta, a.AsDouble()/b2.AsDouble())
		}
		return rOpen
	case "Mod":
		switch ta {
		case variants.Integer:
			if b2.AsInteger() == 0 {
				return rErr
			}
			return rv(ta, a.AsInteger()%b2.AsInteger())
		case variants.Long:
			if b2.AsLong() == 0 {
				return rErr
			}
			return rv(ta, a.AsLong()%b2.AsLong())
		}
		return rOpen
	case "Pow":
		a2, err, ok := convertReal(safe, a, variants.Double)
		if !ok {
			return rOpen
		}
		if err != nil {
			return rErr
		}
		return refResult{kind: "value", pow: true, powF: math.Pow(a2.AsDouble(), b2.AsDouble())}
	case "And", "Or", "Xor":
		switch ta {
		case variants.Integer:
			x, y := a.AsInteger(), b2.AsInteger()
			return rv(ta, map[string]int{"And": x & y, "Or": x | y, "Xor": x ^ y}[op])
		case variants.Long:
			x, y := a.AsLong(), b2.AsLong()
			return rv(ta, map[string]int64{"And": x & y, "Or": x | y, "Xor": x ^ y}[op])
		case variants.Boolean:
			x, y := a.AsBoolean(), b2.AsBoolean()
			return rv(ta, map[string]bool{"And": x && y, "Or": x || y, "Xor": x != y}[op])
		}
		return rOpen
	case "Lsh", "Rsh":
		n := b2.AsInteger()
		if ta != variants.Integer && ta != variants.Long {
			return rOpen
		}
		if n < 0 {
			return rErr
		}
		var r refResult
		if ta == variants.Integer {
			if op == "Lsh" {
				r = rv(ta, a.AsInteger()<<uint(n))
			} else {
				r = rv(ta, a.AsInteger()>>uint(n))
			}
		} else {
			if op == "Lsh" {
				r = rv(ta, a.AsLong()<<uint(n))
			} else {
				r = rv(ta, a.AsLong()>>uint(n))
			}
		}
		if n >= 64 {
			r.kind = "value-or-error"
		}
		return r
	case "Equal", "NotEqual":
		eq, ok := false, true
		switch ta {
		case variants.Integer:
			eq = a.AsInteger() == b2.AsInteger()
		case variants.Long:
			eq = a.AsLong() == b2.AsLong()
		case variants.Float:
			eq = a.AsFloat() == b2.AsFloat()
		case variants.Double:
			eq = a.AsDouble() == b2.AsDouble()
		case variants.String:
			eq = a.AsString() == b2.AsString()
		case variants.Boolean:
			eq = a.AsBoolean() == b2.AsBoolean()
		case variants.TimeSpan:
			eq = a.AsTimeSpan() == b2.AsTimeSpan()
		case variants.DateTime:
			eq = a.AsDateTime().Equal(b2.AsDateTime())
		default:
			ok = false
		}
		if !ok {
			return rOpen
		}
		return rv(variants.Boolean, eq == (op == "Equal"))
	case "More", "Less", "MoreEqual", "LessEqual":
		cmp := func(lt, eq bool) refResult {
			switch op {
			case "More":
				return rv(variants.Boolean, !lt && !eq)
			case "Less":
				return rv(variants.Boolean, lt)
			case "MoreEqual":
				return rv(variants.Boolean, !lt)
			}
			return rv(variants.Boolean, lt || eq)
		}
		fcmp := func(x, y float64) refResult {
			switch op {
			case "More":
				return rv(variants.Boolean, x > y)
			case "Less":
				return rv(variants.Boolean, x < y)
			case "MoreEqual":
				return rv(variants.Boolean, x >= y)
			}
			return rv(variants.Boolean, x <= y)
		}
		switch ta {
		case variants.Integer:
			return cmp(a.AsInteger() < b2.AsInteger(), a.AsInteger() == b2.AsInteger())
		case variants.Long:
			return cmp(a.AsLong() < b2.AsLong(), a.AsLong() == b2.AsLong())
		case variants.Float:
			return fcmp(float64(a.AsFloat()), float64(b2.AsFloat()))
		case variants.Double:
			return fcmp(a.AsDouble(), b2.AsDouble())
		case variants.String:
			return cmp(a.AsString() < b2.AsString(), a.AsString() == b2.AsString())
		case variants.TimeSpan:
			return cmp(a.AsTimeSpan() < b2.AsTimeSpan(), a.AsTimeSpan() == b2.AsTimeSpan())
		case variants.DateTime:
			return cmp(a.AsDateTime().Before(b2.AsDateTime()), a.AsDateTime().Equal(b2.AsDateTime()))
		}
		return rOpen
	case "In":
		if ta == variants.Array {
			// list semantics via '=': true iff some element equals b
			sawOpen := false
			for _, e := range a.AsArray() {
				r := refBinary("Equal", safe, b, e)
				if r.kind == "value" && r.val == true {
					if sawOpen {
						return refResult{kind: "value-or-error", typ: variants.Boolean, val: true}
					}
					return rv(variants.Boolean, true)
				}
				if r.kind != "value" {
					sawOpen = true
				}
			}
			if sawOpen {
				return rOpen
			}
			return rv(variants.Boolean, false)
		}
		return refBinary("Equal", safe, a, b)
	case "GetElement":
		idx := b2.AsInteger()
		switch ta {
		case variants.Array:
			arr := a.AsArray()
			if idx < 0 || idx >= len(arr) {
				return rErr
			}
			return refResult{kind: "value", same: arr[idx]}
		case variants.String:
			r := []rune(a.AsString())
			if idx < 0 || idx >= len(r) {
				return rErr
			}
			return rv(variants.String, string(r[idx]))
		}
		return rOpen
	}
	return rOpen
}

func refUnary(op string, a *variants.Variant) refResult {
	ta := a.Type()
	if ta == variants.Null {
		if op == "Not" {
			return rv(variants.Boolean, true)
		}
		return rNull
	}
	if op == "Not" {
		switch ta {
		case variants.Integer:
			return rv(ta, ^a.AsInteger())
		case variants.Long:
			return rv(ta, ^a.AsLong())
		case variants.Boolean:
			return rv(ta, !a.AsBoolean())
		}
		return rOpen
	}
	switch ta {
	case variants.Integer:
		return rv(ta, -a.AsInteger())
	case variants.Long:
		return rv(ta, -a.AsLong())
	case variants.Float:
		return rv(ta, -a.AsFloat())
	case variants.Double:
		return rv(ta, -a.AsDouble())
	}
	return rOpen
}

func numericAsFloat(v *variants.Variant) (float64, bool) {
	switch v.Type() {
	case variants.Integer:
		return float64(v.AsInteger()), true
	case variants.Long:
		return float64(v.AsLong()), true
	case variants.Float:
		return float64(v.AsFloat()), true
	case variants.Double:
		return v.AsDouble(), true
	}
	return 0, false
}

// c06Compare returns "" when (r,err,pv) satisfies the reference.
func c06Compare(ref refResult, r *variants.Variant, err error, pv interface{}) string {
	if pv != nil {
		return "panics: " + panicShort(pv)
	}
	if (r == nil) == (err == nil) {
		return fmt.Sprintf("returns result=%v and err=%v (exactly one expected)", r != nil, err)
	}
	switch ref.kind {
	case "open":
		return ""
	case "error":
		if err == nil {
			return "returns " + variantStr(r) + " where the operation is undefined (error expected)"
		}
		return ""
	case "value-or-error":
		if err != nil {
			return ""
		}
	case "value":
		if err != nil {
			return fmt.Sprintf("fails with %v, expected %s", err, refStr(ref))
		}
	}
	if ref.pow {
		f, ok := numericAsFloat(r)
		if !ok || !(f == ref.powF || (math.IsNaN(f) && math.IsNaN(ref.powF))) {
			return fmt.Sprintf("= %s, true exponentiation gives %v", variantStr(r), ref.powF)
		}
		return ""
	}
	if ref.same != nil {
		if r != ref.same && !(r.Type() == ref.same.Type() && payloadEq(r.AsObject(), ref.same.AsObject())) {
			return "= " + variantStr(r) + ", expected the element " + variantStr(ref.same)
		}
		return ""
	}
	if r.Type() != ref.typ || !payloadEq(r.AsObject(), ref.val) {
		return "= " + variantStr(r) + ", host arithmetic gives " + refStr(ref)
	}
	return ""
}

func refStr(r refResult) string {
	if r.pow {
		return fmt.Sprintf("pow=%v", r.powF)
	}
	if r.same != nil {
		return "element " + variantStr(r.same)
	}
	return fmt.Sprintf("%s:%#v", tn(r.typ), r.val)
}

func mgrName(safe bool) string {
	if safe {
		return "type-safe"
	}
	return "type-unsafe"
}

func c06Classify(op string, a, b *variants.Variant, msg string, ref refResult) string {
	ta := tn(a.Type())
	switch {
	case len(msg) >= 6 && msg[:6] == "panics":
		kind := "panic"
		if ref.kind == "error" {
			kind = "panic-instead-of-error"
		}
		return fmt.Sprintf("%s:%s:%s", op, ta, kind)
	case ref.kind == "error":
		return fmt.Sprintf("%s:%s:no-error-for-undefined", op, ta)
	}
	return fmt.Sprintf("%s:%s:wrong-result", op, ta)
}

func c06BinaryRun(c *fw.Ctx, pool []poolVal, i int64) {
	safe := i%2 == 1
	i /= 2
	op := c06Binary[int(i)%len(c06Binary)]
	i /= int64(len(c06Binary))
	pa, pb := pool[int(i)/len(pool)], pool[int(i)%len(pool)]
	a, b := pa.mk(), pb.mk()
	sa, sb := variantStr(a), variantStr(b)
	ref := refBinary(op, safe, pa.mk(), pb.mk())
	// arrays: the reference must talk about the same element objects
	if op == "GetElement" || op == "In" {
		ref = refBinary(op, safe, a, b)
	}
	var r *variants.Variant
	var err error
	pv := fw.Try(func() { r, err = callBinary(opsManager(safe), op, a, b) })
	c.Eval(1)
	desc := fmt.Sprintf("%s %s(%s, %s)", mgrName(safe), op, pa.label, pb.label)
	if msg := c06Compare(ref, r, err, pv); msg != "" {
		c.Violation(c06Classify(op, a, b, msg, ref), "%s %s", desc, msg)
	}
	if variantStr(a) != sa || variantStr(b) != sb {
		c.Violation("operator-mutates-operand:"+op, "%s changed an operand: %s -> %s, %s -> %s", desc, sa, variantStr(a), sb, variantStr(b))
	}
	// the SAME variant object as both operands (x op x): still the arithmetic of two equal values;
	// for membership, the looked-up value being the very object stored in the list
	if pa.label == pb.label {
		x := pa.mk()
		sx := variantStr(x)
		refSame := refBinary(op, safe, pa.mk(), pa.mk())
		if op == "GetElement" || op == "In" {
			refSame = refBinary(op, safe, x, x)
		}
		var r2 *variants.Variant
		var err2 error
		pv2 := fw.Try(func() { r2, err2 = callBinary(opsManager(safe), op, x, x) })
		c.Eval(1)
		if msg := c06Compare(refSame, r2, err2, pv2); msg != "" {
			c.Violation("same-object-operands:"+op+":"+tn(x.Type()), "%s %s(x, x) with x = %s passed as BOTH operands: %s", mgrName(safe), op, pa.label, msg)
		}
		if variantStr(x) != sx && pv2 == nil {
			c.Violation("operator-mutates-operand:"+op, "%s %s(x, x) with x = %s changed x to %s", mgrName(safe), op, pa.label, variantStr(x))
		}
	}
	if a.Type() == variants.Array && op == "In" {
		// the value looked up is the very element object held by the list
		for _, e := range a.AsArray() {
			if e == nil {
				continue
			}
			refEl := refBinary(op, safe, a, e.Clone())
			var r3 *variants.Variant
			var err3 error
			pv3 := fw.Try(func() { r3, err3 = callBinary(opsManager(safe), op, a, e) })
			c.Eval(1)
			if msg := c06Compare(refEl, r3, err3, pv3); msg != "" {
				c.Violation("same-object-operands:In:element", "%s In(%s, its own element object %s): %s", mgrName(safe), pa.label, variantStr(e), msg)
			}
		}
	}
	if ref.kind != "open" {
		c.Nontrivial()
	}
	c.Outcome(fmt.Sprintf("%s:%s:%s", op, tn(a.Type()), ref.kind))
}

func c06UnaryRun(c *fw.Ctx, pool []poolVal, i int64) {
	safe := i%2 == 1
	i /= 2
	op := c06Unary[int(i)%2]
	pa := pool[int(i)/2]
	a := pa.mk()
	sa := variantStr(a)
	ref := refUnary(op, pa.mk())
	var r *variants.Variant
	var err error
	pv := fw.Try(func() { r, err = callUnary(opsManager(safe), op, a) })
	c.Eval(1)
	desc := fmt.Sprintf("%s %s(%s)", mgrName(safe), op, pa.label)
	if msg := c06Compare(ref, r, err, pv); msg != "" {
		c.Violation(c06Classify(op, a, a, msg, ref), "%s %s", desc, msg)
	}
	if variantStr(a) != sa {
		c.Violation("operator-mutates-operand:"+op, "%s changed its operand", desc)
	}
	if ref.kind != "open" {
		c.Nontrivial()
	}
	c.Outcome(fmt.Sprintf("%s:%s:%s", op, tn(a.Type()), ref.kind))
}

// relational laws over all ordered pairs
func c06Laws(c *fw.Ctx, pool []poolVal, i int64) {
	safe := i%2 == 1
	i /= 2
	pa, pb := pool[int(i)/len(pool)], pool[int(i)%len(pool)]
	ops := opsManager(safe)
	get := func(op string, x, y poolVal) (bool, bool) {
		var r *variants.Variant
		var err error
		if pv := fw.Try(func() { r, err = callBinary(ops, op, x.mk(), y.mk()) }); pv != nil || err != nil || r == nil || r.Type() != variants.Boolean {
			return false, false
		}
		return r.AsBoolean(), true
	}
	c.Eval(6)
	desc := fmt.Sprintf("%s a=%s b=%s", mgrName(safe), pa.label, pb.label)
	lt, ok1 := get("Less", pa, pb)
	eq, ok2 := get("Equal", pa, pb)
	le, ok3 := get("LessEqual", pa, pb)
	ne, ok4 := get("NotEqual", pa, pb)
	gtRev, ok5 := get("More", pb, pa)
	ge, ok6 := get("MoreEqual", pa, pb)
	gt, ok7 := get("More", pa, pb)
	if ok1 && ok2 && ok3 && le != (lt || eq) {
		c.Violation("law:le=lt-or-eq", "%s: a<=b is %v but a<b is %v and a=b is %v", desc, le, lt, eq)
	}
	if ok6 && ok7 && ok2 && ge != (gt || eq) {
		c.Violation("law:ge=gt-or-eq", "%s: a>=b is %v but a>b is %v and a=b is %v", desc, ge, gt, eq)
	}
	if ok2 && ok4 && ne == eq {
		c.Violation("law:ne=not-eq", "%s: a<>b is %v and a=b is %v", desc, ne, eq)
	}
	if ok1 && ok5 && pa.mk().Type() == pb.mk().Type() && lt != gtRev {
		c.Violation("law:lt-iff-gt-swapped", "%s: a<b is %v but b>a is %v", desc, lt, gtRev)
	}
	if ok1 && ok2 && ok3 {
		c.Nontrivial()
	}
}

var _ = time.Second

func init() {
	fw.Register(&fw.Check{
		ID:    "C06",
		Level: "model_checking",
		Rule: "full matrix: every ordered pair of pool values (every variant type with boundaries: 0, +-1, width limits, 2^53+1, +-0, NaN, +-Inf, empty/non-ASCII strings, time spans, date-times in two zones, arrays incl. empty and nested, objects) x 19 binary operators + every value x 2 unary operators, under both managers, " +
			"against a reference operator table (Null rules, second operand converted by the manager under test, host arithmetic of the first operand's type, error required for division/modulo by zero, negative shifts and out-of-range indexes, true exponentiation); plus the relational laws on every ordered pair and operands unchanged; plus membership in lists of 8..65 elements of one type holding every pool value at the first, middle, last or no position, for every needle of the pool; plus the same object as both operands; plus, for every cell, the same call on a long-lived manager after the same operand objects were used once and then given other values of their type in place (must equal what fresh objects give), and the same call repeated after the caller overwrote the returned variant (results, operands and variants.Empty must be unaffected); non-trivial = cases where the reference defines the outcome",
		Assume: []string{"Convert of the manager under test is used to obtain the converted second operand (C07 decides Convert itself)", "operations on first-operand types outside the statement's list are only required not to crash and to return exactly one of result/error", "shift counts >= 64: host result or error"},
		Spaces: func(tier string) []fw.Space {
			pool := valuePool(tier)
			n := int64(len(pool))
			return []fw.Space{
				{Name: "binary", N: n * n * int64(len(c06Binary)) * 2, Run: func(c *fw.Ctx, i int64) { c06BinaryRun(c, pool, i) },
					Repr: func(i int64) string {
						j := i / 2
						op := c06Binary[int(j)%len(c06Binary)]
						j /= int64(len(c06Binary))
						return fmt.Sprintf("%s %s(%s, %s)", mgrName(i%2 == 1), op, pool[int(j)/len(pool)].label, pool[int(j)%len(pool)].label)
					}},
				{Name: "unary", N: n * 4, Run: func(c *fw.Ctx, i int64) { c06UnaryRun(c, pool, i) },
					Repr: func(i int64) string {
						return fmt.Sprintf("%s %s(%s)", mgrName(i%2 == 1), c06Unary[int(i/2)%2], pool[int(i/2)/2].label)
					}},
				{Name: "reused-operands", N: n * n * int64(len(c06Binary)) * 2, Run: func(c *fw.Ctx, i int64) { c06Reuse(c, pool, i) },
					Repr: func(i int64) string {
						j := i / 2
						op := c06Binary[int(j)%len(c06Binary)]
						j /= int64(len(c06Binary))
						return fmt.Sprintf("%s %s on a reused manager with operand objects first holding (%s, %s) then changed in place", mgrName(i%2 == 1), op, pool[int(j)/len(pool)].label, pool[int(j)%len(pool)].label)
					}},
				{Name: "result-isolation", N: n * n * int64(len(c06Binary)) * 2, Run: func(c *fw.Ctx, i int64) { c06ResultIsolation(c, pool, i, -1) },
					Repr: func(i int64) string {
						j := i / 2
						op := c06Binary[int(j)%len(c06Binary)]
						j /= int64(len(c06Binary))
						return fmt.Sprintf("%s %s(%s, %s), result overwritten by the caller, same call again", mgrName(i%2 == 1), op, pool[int(j)/len(pool)].label, pool[int(j)%len(pool)].label)
					}},
				{Name: "wide-membership", N: n * n * 4 * int64(len(widthCountsSmall)) * 2, Run: func(c *fw.Ctx, i int64) { c06WideIn(c, pool, i) },
					Repr: func(i int64) string {
						j := i / 2
						k := widthCountsSmall[int(j)%len(widthCountsSmall)]
						j /= int64(len(widthCountsSmall))
						w := j % 4
						j /= 4
						return fmt.Sprintf("%s In(list of %d values of one type with %s at position class %d, %s)", mgrName(i%2 == 1), k, pool[int(j)/len(pool)].label, w, pool[int(j)%len(pool)].label)
					}},
				{Name: "exported-empty-reassigned", N: n * int64(len(c06Binary)) * 2, Run: func(c *fw.Ctx, i int64) { c06EmptyReassigned(c, pool, i) },
					Repr: func(i int64) string {
						j := i / 2
						return fmt.Sprintf("%s %s with a Null operand and %s while variants.Empty points at another variant", mgrName(i%2 == 1), c06Binary[int(j)%len(c06Binary)], pool[int(j/int64(len(c06Binary)))%len(pool)].label)
					}},
				{Name: "hash-twin-operands", N: 5 * 2 * 4 * 4 * 2, Run: c06Twins,
					Repr: func(i int64) string { return fmt.Sprintf("two calls on one manager with numeric string operands that share a hash value (#%d)", i) }},
				{Name: "laws", N: n * n * 2, Run: func(c *fw.Ctx, i int64) { c06Laws(c, pool, i) },
					Repr: func(i int64) string {
						return fmt.Sprintf("%s relational laws on (%s, %s)", mgrName(i%2 == 1), pool[int(i/2)/len(pool)].label, pool[int(i/2)%len(pool)].label)
					}},
			}
		},
		Bounds: func(tier string) string {
			return fmt.Sprintf("pool of %d values: all ordered pairs x 19 operators x 2 managers; all values x 2 unary x 2 managers", len(valuePool(tier)))
		},
	})
}

// ---- width pump for membership: lists of k elements of ONE type holding the needle's value at the
// first, middle or last position (or not at all), needle x element pairs over the whole pool

func c06WideIn(c *fw.Ctx, pool []poolVal, i int64) {
	safe := i%2 == 1
	i /= 2
	k := widthCountsSmall[int(i)%len(widthCountsSmall)]
	i /= int64(len(widthCountsSmall))
	where := int(i % 4) // 0 first, 1 middle, 2 last, 3 absent
	i /= 4
	pe, pn := pool[int(i)/len(pool)], pool[int(i)%len(pool)]
	elem, needle := pe.mk(), pn.mk()
	if elem.Type() == variants.Array || elem.Type() == variants.Null || elem.Type() == variants.Object {
		c.Outcome("not-applicable")
		return
	}
	// fillers: the other pool values of the element's type that the reference says differ from the needle
	fill := []poolVal{}
	for _, p := range pool {
		v := p.mk()
		if v.Type() != elem.Type() {
			continue
		}
		if r := refBinary("Equal", safe, needle, v); r.kind == "value" && r.val == false {
			fill = append(fill, p)
		}
	}
	if len(fill) == 0 {
		c.Outcome("no-fillers")
		return
	}
	items := make([]*variants.Variant, k)
	for j := range items {
		items[j] = fill[j%len(fill)].mk()
	}
	switch where {
	case 0:
		items[0] = elem
	case 1:
		items[k/2] = elem
	case 2:
		items[k-1] = elem
	}
	list := variants.VariantFromArray(items)
	ref := refBinary("In", safe, list, needle)
	var r *variants.Variant
	var err error
	pv := fw.Try(func() { r, err = callBinary(opsManager(safe), "In", list, needle) })
	c.Eval(1)
	if msg := c06Compare(ref, r, err, pv); msg != "" {
		c.Violation("In:wide-list:"+tn(elem.Type()), "%s In(list of %d %s values with %s at %s, %s): %s", mgrName(safe), k, tn(elem.Type()), pe.label, []string{"the first position", "the middle", "the last position", "no position"}[where], pn.label, msg)
	}
	if ref.kind != "open" {
		c.Nontrivial()
	}
	c.Outcome(fmt.Sprintf("In:%s:%s", tn(elem.Type()), ref.kind))
}

// ---- two operator calls on ONE manager whose second operands are numeric strings colliding under a
// usual hash function: the second call must give what a fresh manager gives

func c06Twins(c *fw.Ctx, i int64) {
	tw := digitTwins()
	if len(tw) == 0 {
		c.Outcome("no-twins")
		return
	}
	safe := i%2 == 1
	i /= 2
	ops := []string{"Add", "Equal", "Less", "Mul"}
	op := ops[int(i)%len(ops)]
	i /= int64(len(ops))
	firsts := []func() *variants.Variant{
		func() *variants.Variant { return variants.VariantFromDouble(0) },
		func() *variants.Variant { return variants.VariantFromFloat(1) },
		func() *variants.Variant { return variants.VariantFromLong(2) },
		func() *variants.Variant { return variants.VariantFromInteger(3) },
	}
	mkFirst := firsts[int(i)%len(firsts)]
	i /= int64(len(firsts))
	p := tw[int(i/2)%len(tw)]
	a, b := p.a, p.b
	if i%2 == 1 {
		a, b = b, a
	}
	m, fresh := opsManager(safe), opsManager(safe)
	var r2, f2 *variants.Variant
	var e2, fe2 error
	pv := fw.Try(func() {
		callBinary(m, op, mkFirst(), variants.VariantFromString(a))
		r2, e2 = callBinary(m, op, mkFirst(), variants.VariantFromString(b))
		f2, fe2 = callBinary(fresh, op, mkFirst(), variants.VariantFromString(b))
	})
	c.Eval(3)
	if pv != nil {
		c.Violation("operator-panics-on-twins", "%s %s(%s, %q) after the same call with %q panics: %s", mgrName(safe), op, variantStr(mkFirst()), b, a, panicShort(pv))
		return
	}
	if outcomeStr(r2, e2, nil) != outcomeStr(f2, fe2, nil) {
		c.Violation("operator-depends-on-previous-call:"+op, "%s manager: %s(%s, String %q) right after %s(%s, String %q) gives %s, a fresh manager gives %s (the two texts have the same %s hash)", mgrName(safe), op, variantStr(mkFirst()), b, op, variantStr(mkFirst()), a, outcomeStr(r2, e2, nil), outcomeStr(f2, fe2, nil), p.hash)
	}
	c.Nontrivial()
}

// ---- the exported variable variants.Empty points at another variant (a caller may assign it): operators
// still propagate a real Null, build their results from scratch and leave that variable alone

func c06EmptyReassigned(c *fw.Ctx, pool []poolVal, i int64) {
	safe := i%2 == 1
	i /= 2
	op := c06Binary[int(i)%len(c06Binary)]
	i /= int64(len(c06Binary))
	pa := pool[int(i)%len(pool)]
	saved := variants.Empty
	mine := variants.VariantFromInteger(6)
	variants.Empty = mine
	defer func() { variants.Empty = saved }()
	for _, nullFirst := range []bool{true, false} {
		null := variants.VariantFromInteger(0)
		null.Clear() // a Null operand that was not made from the exported variable
		a, b := null, pa.mk()
		if !nullFirst {
			a, b = b, a
		}
		ref := refBinary(op, safe, a, b)
		if op == "GetElement" || op == "In" {
			ref = refBinary(op, safe, a, b)
		}
		var r *variants.Variant
		var err error
		pv := fw.Try(func() { r, err = callBinary(opsManager(safe), op, a, b) })
		c.Eval(1)
		if msg := c06Compare(ref, r, err, pv); msg != "" {
			c.Violation("operator-depends-on-exported-empty:"+op, "%s %s with a Null operand (Null first: %v, other operand %s) while variants.Empty points at Integer 6: %s", mgrName(safe), op, nullFirst, pa.label, msg)
			return
		}
	}
	if variants.Empty != mine || variantStr(mine) != variantStr(variants.VariantFromInteger(6)) {
		c.Violation("operator-writes-exported-empty:"+op, "%s %s changed the variant the caller put into variants.Empty to %s", mgrName(safe), op, variantStr(variants.Empty))
	}
	c.Nontrivial()
}

// ---- reused manager / operands mutated in place (differential against fresh objects)

var c06SharedOps = map[bool]variants.IVariantOperations{}

// calls that both managers (or at least the type-safe one) reject
var c06RejectedPrelude = []func(m variants.IVariantOperations){
	func(m variants.IVariantOperations) { m.Convert(variants.VariantFromInteger(5), variants.Array) },
	func(m variants.IVariantOperations) { m.Convert(variants.VariantFromInteger(5), variants.Boolean) },
	func(m variants.IVariantOperations) { m.Convert(variants.VariantFromLong(5), variants.Integer) },
	func(m variants.IVariantOperations) { m.Convert(variants.VariantFromFloat(5), variants.Long) },
	func(m variants.IVariantOperations) { m.Convert(variants.VariantFromDouble(5), variants.Float) },
	func(m variants.IVariantOperations) { m.Convert(variants.VariantFromString("x"), variants.Integer) },
	func(m variants.IVariantOperations) { m.Convert(variants.VariantFromBoolean(true), variants.Array) },
	func(m variants.IVariantOperations) {
		m.Add(variants.VariantFromArray([]*variants.Variant{}), variants.VariantFromInteger(1))
	},
	func(m variants.IVariantOperations) { m.Div(variants.VariantFromInteger(1), variants.VariantFromInteger(0)) },
	func(m variants.IVariantOperations) { m.And(variants.VariantFromString("x"), variants.VariantFromString("y")) },
}

func sharedManager(safe bool) variants.IVariantOperations {
	if m, ok := c06SharedOps[safe]; ok {
		return m
	}
	m := opsManager(safe)
	c06SharedOps[safe] = m
	return m
}

// nextOfType returns another pool value of the same variant type (for an in-place change of value).
func nextOfType(pool []poolVal, i int) (poolVal, bool) {
	t := pool[i].mk().Type()
	for k := 1; k < len(pool); k++ {
		j := (i + k) % len(pool)
		if pool[j].mk().Type() == t && variantStr(pool[j].mk()) != variantStr(pool[i].mk()) {
			return pool[j], true
		}
	}
	return poolVal{}, false
}

func outcomeStr(r *variants.Variant, err error, pv interface{}) string {
	switch {
	case pv != nil:
		return "panic"
	case err != nil:
		return "error"
	case r == nil:
		return "<nil>"
	}
	return variantStr(r)
}

// c06Reuse: op(a,b) on a long-lived manager, then the SAME operand objects get new values of the
// same type in place and op runs again; the second result must be what fresh objects give.
func c06Reuse(c *fw.Ctx, pool []poolVal, i int64) {
	safe := i%2 == 1
	i /= 2
	op := c06Binary[int(i)%len(c06Binary)]
	i /= int64(len(c06Binary))
	ia, ib := int(i)/len(pool), int(i)%len(pool)
	pa2, okA := nextOfType(pool, ia)
	pb2, okB := nextOfType(pool, ib)
	if !okA || !okB {
		c.Outcome("no-second-value-of-that-type")
		return
	}
	m := sharedManager(safe)
	a, b := pool[ia].mk(), pool[ib].mk()
	fw.Try(func() { callBinary(m, op, a, b) })
	a.Assign(pa2.mk())
	b.Assign(pb2.mk())
	var r *variants.Variant
	var err error
	pv := fw.Try(func() { r, err = callBinary(m, op, a, b) })
	var fr *variants.Variant
	var ferr error
	fpv := fw.Try(func() { fr, ferr = callBinary(opsManager(safe), op, pa2.mk(), pb2.mk()) })
	c.Eval(2)
	c.Nontrivial()
	got, want := outcomeStr(r, err, pv), outcomeStr(fr, ferr, fpv)
	if op == "GetElement" && err == nil && ferr == nil && pv == nil && fpv == nil && r != nil && fr != nil {
		got, want = variantStr(r), variantStr(fr)
	}
	if got != want {
		c.Violation("stale-result-with-reused-operands:"+op, "%s %s(%s, %s) on a reused manager after the same operand objects held (%s, %s): %s; fresh objects give %s", mgrName(safe), op, pa2.label, pb2.label, pool[ia].label, pool[ib].label, got, want)
	}
}

// ---- result isolation: a returned variant is the caller's; writing into it must not change
// later results or shared library state (differential against a second evaluation on fresh operands)

func c06ResultIsolation(c *fw.Ctx, pool []poolVal, i int64, convertTo int) {
	safe := i%2 == 1
	i /= 2
	var op string
	if convertTo < 0 {
		op = c06Binary[int(i)%len(c06Binary)]
		i /= int64(len(c06Binary))
	}
	ia, ib := int(i)/len(pool), int(i)%len(pool)
	m := sharedManager(safe)
	call := func() (*variants.Variant, *variants.Variant, *variants.Variant, string) {
		a, b := pool[ia].mk(), pool[ib].mk()
		var r *variants.Variant
		var err error
		pv := fw.Try(func() {
			if convertTo >= 0 {
				r, err = m.Convert(a, allTypes[convertTo])
			} else {
				r, err = callBinary(m, op, a, b)
			}
		})
		return a, b, r, outcomeStr(r, err, pv)
	}
	// a fixed prelude of rejected calls on the same manager: whatever a rejected call leaves
	// behind (scratch results, error state) must not reach the results of the calls that follow
	for _, pre := range c06RejectedPrelude {
		pre := pre
		fw.Try(func() { pre(m) })
	}
	a, b, r1, s1 := call()
	if r1 == nil || r1 == a || r1 == b {
		c.Outcome("result-is-an-operand-or-absent")
		return
	}
	isElem := false
	for _, x := range []*variants.Variant{a, b} {
		if x.Type() == variants.Array {
			for _, e := range x.AsArray() {
				if e == r1 {
					isElem = true // GetElement hands out the element itself, by design
				}
			}
		}
	}
	if isElem {
		c.Outcome("result-is-an-element")
		return
	}
	sa, sb := variantStr(a), variantStr(b)
	// the caller overwrites the result it was given
	fw.Try(func() { r1.SetAsString("overwritten-by-caller") })
	c.Eval(2)
	c.Nontrivial()
	desc := op
	if convertTo >= 0 {
		desc = "Convert to " + tn(allTypes[convertTo])
	}
	if variantStr(a) != sa || variantStr(b) != sb {
		c.Violation("result-aliases-operand:"+desc, "%s %s(%s, %s): writing into the returned variant changed an operand", mgrName(safe), desc, pool[ia].label, pool[ib].label)
	}
	if variants.Empty == nil || variants.Empty.Type() != variants.Null {
		c.Violation("result-aliases-shared-empty:"+desc, "%s %s(%s, %s) returned the package-level variants.Empty (writing into the result changed it to %s)", mgrName(safe), desc, pool[ia].label, pool[ib].label, variantStr(variants.Empty))
		variants.Empty = variants.EmptyVariant()
		return
	}
	_, _, r2, s2 := call()
	if r2 != nil && r2 == r1 {
		c.Violation("successive-results-share-one-variant:"+desc, "%s %s(%s, %s): two successive calls returned the same variant object, so the second call rewrote the result the caller still held", mgrName(safe), desc, pool[ia].label, pool[ib].label)
		return
	}
	if r1.Type() != variants.String || r1.AsString() != "overwritten-by-caller" {
		c.Violation("earlier-result-changed-by-later-call:"+desc, "%s %s(%s, %s): the variant returned by the first call (since overwritten by the caller) was changed by the second call to %s", mgrName(safe), desc, pool[ia].label, pool[ib].label, variantStr(r1))
		return
	}
	if s1 != s2 {
		c.Violation("result-not-isolated:"+desc, "%s %s(%s, %s) = %s, but after the caller overwrote that result the same call gives %s", mgrName(safe), desc, pool[ia].label, pool[ib].label, s1, s2)
	}
}
