// Package sched is a cooperative scheduler with depth-first exploration of all
// schedules up to a preemption bound (iterative context bounding).
//
// Harness threads are goroutines that run strictly one at a time. A thread
// gives up the CPU only at Yield(site) (called by the instrumented library
// sources and by harness callbacks) or when it finishes. At every such point
// the explorer chooses the next thread; choice 0 is always "keep running the
// current thread if it can" and switching away from a runnable thread costs a
// preemption. Executions always run to completion.
package sched

import (
	"fmt"
)

type event struct {
	kind  int // 0 yield, 1 done
	site  string
	panic interface{}
}

type thread struct {
	resume chan struct{}
	done   bool
	panic  interface{}
}

// Point is one scheduling decision.
type Point struct {
	Site        string
	Enabled     []int // canonical order: running thread first if still enabled, then ascending ids
	Chosen      int   // index into Enabled
	RunningOpen bool  // the running thread was still enabled (switching = preemption)
}

// Exec is one complete execution.
type Exec struct {
	Points      []Point
	Choices     []int
	Panics      []interface{} // per thread
	Preemptions int
	Diverged    bool
}

type runner struct {
	threads []*thread
	toSched chan event
	cur     int
}

var active *runner

// Yield is installed as the library's yield hook. Outside a controlled run,
// and on goroutines other than the running thread, it does nothing.
func Yield(site string) {
	r := active
	if r == nil || r.cur < 0 {
		return
	}
	t := r.threads[r.cur]
	r.toSched <- event{kind: 0, site: site}
	<-t.resume
}

// Run executes bodies under the scheduler following `prefix`, then choice 0.
// maxPoints bounds the execution length (a horizon; exceeding it is reported).
func Run(bodies []func(), prefix []int, maxPoints int) (*Exec, error) {
	r := &runner{toSched: make(chan event), cur: -1}
	for range bodies {
		r.threads = append(r.threads, &thread{resume: make(chan struct{})})
	}
	active = r
	defer func() { active = nil }()
	for i, b := range bodies {
		i, b := i, b
		go func() {
			<-r.threads[i].resume
			var pv interface{}
			func() {
				defer func() { pv = recover() }()
				b()
			}()
			r.toSched <- event{kind: 1, panic: pv}
		}()
	}
	x := &Exec{Panics: make([]interface{}, len(bodies))}
	running := -1
	site := "start"
	for {
		enabled := []int{}
		open := running >= 0 && !r.threads[running].done
		if open {
			enabled = append(enabled, running)
		}
		for i, t := range r.threads {
			if !t.done && i != running {
				enabled = append(enabled, i)
			}
		}
		if len(enabled) == 0 {
			break
		}
		choice := 0
		k := len(x.Points)
		if k < len(prefix) {
			choice = prefix[k]
			if choice < 0 || choice >= len(enabled) {
				x.Diverged = true
				// drain: let everything finish with choice 0 so no goroutine leaks
				choice = 0
			}
		}
		if open && choice != 0 {
			x.Preemptions++
		}
		x.Points = append(x.Points, Point{Site: site, Enabled: enabled, Chosen: choice, RunningOpen: open})
		x.Choices = append(x.Choices, choice)
		if len(x.Points) > maxPoints {
			// horizon: finish without recording further decisions
			maxPoints = 1 << 30
			x.Diverged = true
		}
		running = enabled[choice]
		r.cur = running
		r.threads[running].resume <- struct{}{}
		ev := <-r.toSched
		r.cur = -1
		if ev.kind == 1 {
			r.threads[running].done = true
			x.Panics[running] = ev.panic
			site = fmt.Sprintf("end-of-thread-%d", running)
		} else {
			site = ev.site
		}
	}
	if x.Diverged {
		return x, fmt.Errorf("schedule diverged from its prefix or exceeded the horizon")
	}
	return x, nil
}

// Stats of an exploration.
type Stats struct {
	Schedules   int64
	Points      int64
	MaxPoints   int
	Capped      bool
	BoundDone   int
	Transitions int64
}

// Explore enumerates every schedule with at most `bound` preemptions,
// depth-first, calling check on each complete execution. mk must build a
// fresh set of thread bodies for every execution. check returns false to stop.
func Explore(mk func() []func(), bound int, maxSchedules int64, maxPoints int, check func(x *Exec) bool) (*Stats, error) {
	st := &Stats{BoundDone: bound}
	var rec func(prefix []int) (bool, error)
	rec = func(prefix []int) (bool, error) {
		if st.Schedules >= maxSchedules {
			st.Capped = true
			return false, nil
		}
		x, err := Run(mk(), prefix, maxPoints)
		if err != nil {
			return false, fmt.Errorf("%v (prefix %v)", err, prefix)
		}
		st.Schedules++
		st.Points += int64(len(x.Points))
		st.Transitions += int64(len(x.Points))
		if len(x.Points) > st.MaxPoints {
			st.MaxPoints = len(x.Points)
		}
		if !check(x) {
			return false, nil
		}
		pre := 0
		for i := 0; i < len(x.Points); i++ {
			p := x.Points[i]
			if i >= len(prefix) {
				for alt := 1; alt < len(p.Enabled); alt++ {
					cost := pre
					if p.RunningOpen {
						cost++
					}
					if cost > bound {
						continue
					}
					np := append(append([]int{}, x.Choices[:i]...), alt)
					cont, err := rec(np)
					if err != nil || !cont {
						return false, err
					}
				}
			}
			if p.RunningOpen && p.Chosen != 0 {
				pre++
			}
		}
		return true, nil
	}
	_, err := rec(nil)
	return st, err
}
